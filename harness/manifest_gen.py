"""Regenerates MANIFEST.json from the table below (run by hand after adding a property)."""
import json
import os

VERIF = os.path.dirname(os.path.dirname(os.path.abspath(__file__)))

CHECKS = {}   # filled by register()
NA = {}


def register(pid, text, note, technique, design_ref):
    CHECKS[pid] = dict(
        property_id=pid,
        quick_cmd='./check %s --tier quick' % pid,
        thorough_cmd='./check %s --tier thorough' % pid,
        evidence_file='/verif/evidence/%s.json' % pid,
        replay_cmd_template='./check %s --replay {path}' % pid,
        engine='coq-model+correspondence',
        level_claimed=dict(category='proof', text=text, design_ref=design_ref),
        level_note=note,
        technique=technique)


COMMON_NOTE = ('Trusted: Coq 8.16.1 kernel + vm_compute; no axioms (Print Assumptions output recorded in the evidence); '
               'the hand-written Gallina model is tied to /repo by a correspondence check that runs the real code on SQLite '
               'and evaluates model-vs-code equality and the property predicate inside coqc on every run (sampling); '
               'SQLAlchemy / SQLite semantics are environment. ')

register('C08',
         'Coq theorems over every version table satisfying the table primary key: versions = exactly the entity\'s rows, strictly '
         'sorted; for the i-th element index = i, next = (i+1)-th, previous = (i-1)-th, for the subquery fetcher and (under the '
         'validity chain) the validity fetcher; composite keys are lists. The model accessors mirror the emitted SQL and are '
         'compared with the real accessors on random interleaved tables every run; every fourth case is end to end: a random write '
         'program runs through the real ORM and the accessors are read on the table it left, with no chain hypothesis.',
         COMMON_NOTE + 'Validity navigation assumes the validity chain (C03 proves it for every reachable table); loaded tables violating it are vacuous, tables written by the code never are.',
         'Coq proof (induction over tables, sorting/permutation lemmas) + vm_compute correspondence against the ORM accessors',
         'DESIGN.md §7 C08')

register('C16',
         'Coq theorems over every version table with positive transaction ids: the back-fill sets each row\'s end to the least '
         'larger transaction id of the same key and changes nothing else (C16_rows); if the newest rows are open the result '
         'satisfies the validity chain (C16_chain); a wiped chained table is restored exactly (C16_restores); the tool is '
         'idempotent with no hypothesis (C16_idempotent). The model mirrors the SELECT/UPDATE loop of update_end_tx_column and '
         'is compared with the real tool (run once and twice) on random tables every run.',
         COMMON_NOTE + 'Transaction ids are assumed positive (the tool skips falsy values).',
         'Coq proof (equational reasoning over list map, min_above characterisation) + vm_compute correspondence against schema.update_end_tx_column',
         'DESIGN.md §7 C16')

register('C19',
         'Coq theorems over every version table satisfying the primary key: a row deleted by vacuum is identical (every non-key '
         'column) to the nearest earlier surviving row of the same entity and everything in between was deleted too; the first '
         'version of every entity is kept; a version that differs from its immediate predecessor is kept (A,B,A); every as-of lookup (newest version at or below any transaction id) is answered by the vacuumed table with an equal row (C19_as_of_preserved); a second vacuum deletes nothing (C19_second_vacuum_deletes_nothing). The model '
         '(per-entity pass with a last-surviving row) is compared with utils.vacuum (session.deleted and the table after '
         'commit) on random tables every run, including a joined-table hierarchy vacuumed through its base class (a model row spans both version tables).',
         COMMON_NOTE + 'naturally_equivalent (SQLAlchemy-Utils) is modelled as equality of all non-primary-key columns. The single '
         'ordered pass over all entities is regenerated from utils.py on every run (harness/pytrans_vacuum.py, Gen/VacuumGen.v) and proved to delete exactly the rows of the per-entity model for every order of ties (C19_code_pass_is_model, C19_code_pass_sorted).',
         'Coq proof (induction over the sorted version list with a surviving-predecessor invariant; single-pass loop translated from the source and proved equal to the model) + vm_compute correspondence against utils.vacuum',
         'DESIGN.md §7 C19')

register('C20',
         'Coq theorem: the model of the COUNT query equals the length of the versions collection for every table and key (and 0 '
         'when the key has no rows). That the code computes this count for every key value is established by the '
         'correspondence check, which drives adversarial key strings (quotes, backslash, percent, colon, newline, non-ASCII, '
         'empty, long), int and composite keys and a custom table-name format against count_versions and versions.count().',
         COMMON_NOTE + 'Key values are numbered injectively per case before reaching the model; the tie for this property is '
         'carried almost entirely by the correspondence (sampling), the theorem itself is small.',
         'Coq proof (permutation length) + adversarial-key vm_compute correspondence against utils.count_versions',
         'DESIGN.md §7 C20')

register('C15',
         'Coq theorems over every version table: (a) the changeset of the i-th version equals the column-wise difference to the '
         '(i-1)-th version (to nothing for the first) for both fetchers, and contains exactly the differing columns mapped to '
         '(old,new); (c) under the validity chain the flag back-fill switches on exactly the flags of the columns that differ '
         'from the positional predecessor (all flags for a first version), NULL being an ordinary value, and changes nothing '
         'else. Both models are compared with version.changeset and schema.update_property_mod_flags on random tables every '
         'run. Clause (b), flags written by the object path: histories with the tracker plugin (several flushes per transaction, inserts and deletes in later flushes) are replayed in the unit-of-work model and the flags of every row written are compared with the model and with the column-wise difference to the predecessor (C15b_prop).',
         COMMON_NOTE + 'Python != on ints/None is modelled by val_eqb.',
         'Coq proof (list reasoning on top of the C08 position lemmas) + vm_compute correspondence against version.changeset and schema.update_property_mod_flags',
         'DESIGN.md §7 C15')

register('C02',
         'Coq theorems over the Layer-B machine for every event trace (any split into flushes and commits, relationship-only and '
         'non-versioned-only transactions, manual record creation, every plugin set): no version / association-version / changes '
         'row ever refers to a missing transaction record (reachable-state invariant, incl. rollbacks); every row a flush adds '
         'carries the one current id; the record, once created, stays current until the transaction ends; a flush creates a record '
         'iff some versioned object is new/deleted/modified, exactly one, larger than all earlier ids. The machine mirrors '
         'unit_of_work.py/manager.py/operation.py branch for branch and is replayed on recorded listener-level traces of the real '
         'code and compared with the real tables after every flush/commit/rollback on every run; the histories include a second application session on the same connection committed inside the transaction, and (judged on the observations only, the model\'s configuration being fixed per run) the manager-level switch options[versioning] toggled between flush and commit. The observation predicate also requires that no row WRITTEN in a transaction carries the id of an earlier record.',
         COMMON_NOTE + 'The SQLAlchemy session is environment: it enters as the recorded event trace (well-formedness monitored). '
         'Plugin-supplied transaction attributes (Flask, TransactionMeta) are opaque to the model and not compared.',
         'Coq proof (inductive invariant over event traces) + vm_compute replay of recorded traces against the real tables',
         'DESIGN.md §7 C02')

register('C03',
         'Coq theorems: (table level) writing the row of an entity at a transaction id that is at least every id in the table and '
         'closing its predecessor yields the chain for that entity and leaves rows and chain of every other entity untouched; '
         '(machine level) after every event of every trace - any number of flushes per transaction, deletes, re-inserts in one or '
         'several transactions, interleaved entities, rollbacks, manual record creation - every version table satisfies its primary '
         'key and every validity-strategy table the chain (inductive invariant, which also shows the version-object cache agrees '
         'with the rows of the current transaction and the package never raises on them). Replayed against the real tables after '
         'every flush/commit/rollback on every run.',
         COMMON_NOTE + 'Monotone id allocation is the database\'s (modelled as 1+max, compared on every run). Joined-table hierarchies: the base table is a '
         'validity table like any other (hier_consistent); for the child tables C03_reachable_hierarchy_chain proves, by induction over the trace, that in '
         'every reachable state a child row is closed by the next version of its key in the base table whatever its class (the repaired predecessor '
         'lookup, modelled by hier_pass) - under one monitored environment hypothesis (every version of a subclass entity has its base-table row after '
         'every flush: trace_pairedb, evaluated on every recorded trace). The real tables are compared after every event, including keys that come back as another class.',
         'Coq proof (table-level chain lemma + inductive machine invariant) + vm_compute replay of recorded traces against the real tables',
         'DESIGN.md §7 C03')

register('C11',
         'Coq theorems: in every reachable state of the Layer-B machine the version-table primary key (entity, transaction) holds '
         '- so a transaction leaves at most one row per entity however often it flushes - and the package never raises on a row it '
         'wrote in an earlier flush; the operation type left in the operations map for an entity by ANY sequence of insert/update/'
         'delete events spread over any number of flushes is the coalesced one (last tracked kind, insert-after-anything = UPDATE), '
         'unaffected by events of other entities; the predecessor is closed by C03. All sequences over insert/update/delete/'
         're-insert with all flush placements up to length 3 (quick) / 4 (thorough) are run on the real code as test inputs '
         'and compared with the model and with the coalescing predicate after every flush. A key that changes class within one '
         'transaction in a single-table hierarchy is judged on the observations alone (C11_O: Layer B gives an entity one class), '
         'with the recorder invariant that a version row holds no value in a column its class does not map.',
         COMMON_NOTE + 'The clause "the row holds the state of the last flushed change" is decided by the C01 check (same model, same '
         'runs); savepoint-commit points are not generated (savepoints are C06). The machine theorems cover joined hierarchies (hier_consistent).',
         'Coq proof (automaton lemma by induction over the event list + inductive machine invariant) + enumerated and random histories replayed against the real tables',
         'DESIGN.md §7 C11')

register('C01',
         'Coq theorem over the Layer-B machine for every well-formed trace (any number of transactions and flushes, keys reused '
         'after delete, every plugin set, both strategies): after every event, the newest version of every live versioned entity '
         'is a non-DELETE row holding exactly its versioned columns, and a removed entity has no version or a newest DELETE '
         '(C01_newest_version_equals_live_row, by an inductive invariant whose step is C01_flush_step); every row a flush adds '
         'belongs to an entity with a tracked insert / delete / real update (C01_rows_only_for_tracked_changes). The environment '
         'assumptions (flush_wf) are monitored on every recorded trace; where the real environment violates them the property '
         'itself failed on the code: four such classes were found and repaired (spurious update, version defaults, cascade from a '
         'non-versioned parent, row switch). Every run compares model and real tables after every flush and evaluates the property on the snapshots.',
         COMMON_NOTE + 'The SQLAlchemy session is environment (recorded traces). Shapes: flat classes with int / composite / string keys, '
         'class-level option overrides, non-versioned parent, joined-table / single-table inheritance (the machine theorems assume one '
         'class per table; hierarchies are covered by the correspondence and the predicates).',
         'Coq proof (inductive invariant over event traces: operations map, version-object cache, rows vs live tables) + vm_compute replay of recorded traces',
         'DESIGN.md §7 C01')

register('C13',
         'Coq theorems: an update whose history shows changes on excluded columns / excluded or unversioned relationships only is '
         'not tracked; untracked entities get no row (every row a flush adds belongs to a tracked event); such an object does not '
         'make the session count as modified and a flush without a modified object creates no transaction record; the stored '
         'data and key of a version are functions of the non-excluded column values only. Histories mixing excluded and versioned '
         'changes (excluded column, re-included column, excluded relationship) are run on the real code and checked after every commit. '
         'The schema clause is C12, the revert clause C05.',
         COMMON_NOTE + 'One exclusion predicate (key in exclude and not in include) is reflected from the real configuration into the model.',
         'Coq proof (lemmas on the tracker predicates + machine invariant) + vm_compute replay of recorded traces',
         'DESIGN.md §7 C13')

register('C17',
         'Coq theorems: changed_entities (rows filtered by transaction id and version table) contains exactly the rows stamped with the '
         'id; with the plugin the names recorded for the current transaction are exactly the classes of the operations map, one '
         'entry per class, entries of other transactions untouched; every unprocessed operation leaves its row at the current id '
         'and every new row belongs to an operation. At every commit of every generated history the transaction_changes rows '
         'are compared with the classes having a row stamped with each id; Transaction.changed_entities of every record is read at the end (through the record object the application looked at between two flushes, where it did) and compared with the version rows carrying its id; shapes include two versioned classes with the same __name__ and, judged on the observations only, a key that changes class within a transaction.',
         COMMON_NOTE + 'The composition "operations map = classes with a row" at commit is carried by the two theorems plus the replay; '
         'Transaction.changed_entities itself is a plain filter query. One open known finding (F-C17-class-change-drops-child-part).',
         'Coq proof (list lemmas on add_changes + fold over operations) + vm_compute replay of recorded traces',
         'DESIGN.md §7 C17')

register('C10',
         'Coq theorems: after the link / unlink statements of one transaction (any number, any order, the same pair several times) '
         'are written with the current id - at least every id in the table - replaying the association-version rows (newest row '
         'per pair, linked iff not a DELETE) yields exactly the live link set; at most one row per link and transaction; rows of '
         'other transactions (hence the replay up to any earlier transaction) are untouched; ids never dangle (C02). Link '
         'histories (single/bulk, either side, link+unlink of one pair in one transaction with a flush between, re-adds, deleted '
         'parents/targets) are run on the real code with an unversioned twin run, and replay / frame / touched-pairs-only are '
         'checked after every commit.',
         COMMON_NOTE + 'Self-referential many-to-many is not in the generated shapes. The application-side association table is defined by '
         'the recorded INSERT/DELETE statements.',
         'Coq proof (induction over the statement list with a newest-row invariant) + vm_compute replay of recorded traces + twin run',
         'DESIGN.md §7 C10')

register('C07',
         'Coq theorems: the application tables of the model are a function of the event trace alone - versioning on/off, strategy and '
         'plugins make no difference (C07_application_tables_independent_of_versioning); the package never raises an error of its own '
         'on its version tables in any reachable state; with versioning off nothing is written. That the REAL code behaves identically '
         'with and without versioning is established by the twin run: every generated history (general, link histories incl. '
         'link+unlink of one pair in one transaction, raw Core statements on the association table with bound and inline values, '
         'autoflush) is executed with make_versioned and on an identical unversioned model set and per-operation outcomes and final '
         'application tables are compared; after remove_versioning() further work must add no versioning row and leave no listener.',
         COMMON_NOTE + 'Partial: the data-transparency equation is structural in the model; its content for the code comes from the twin '
         'run (sampling). The machine theorems cover joined hierarchies (hier_consistent); objects loaded through the base class are covered by the twin run.',
         'Coq proof (simulation between configurations; machine invariant) + twin-run differential testing + vm_compute replay',
         'DESIGN.md §7 C07')

register('C04',
         'Coq theorems over arbitrary version and association-version tables satisfying the table primary key: the SQL-shaped '
         'relationship queries (EXISTS / GROUP BY / HAVING MAX; scalar MAX subquery; association EXISTS nested in EXISTS) return '
         'exactly - one-to-many / one-to-one / dynamic: the children whose as-of version points at the owner and is not a DELETE; '
         'many-to-one: the parent\'s as-of version unless deleted or the key is NULL; many-to-many: targets whose newest association '
         'row at or before the owner\'s transaction is not a DELETE, taken as of that transaction, not deleted. Every reflected '
         'relationship (incl. the non-versioned target) is read on every version object of random table contents each run and '
         'compared with the model and with a positional specification. A quarter of the cases are HISTORIES run on the real code '
         '(general, many-to-many heavy, children moved between parents): the version tables are those the package wrote, and every '
         'relationship of every version is additionally compared end to end with the application\'s own tables as they were at the '
         'commit that ended the version\'s transaction; the programs include a child deleted and re-created under the same key in one flush (row switch).',
         COMMON_NOTE + 'Single-column keys/foreign keys; custom primaryjoin shapes are not modelled. States violating the declared foreign keys (SQLite does not enforce them) are not judged end to end.',
         'Coq proof (max/filter characterisations shared with C08) + vm_compute correspondence against the ORM relationship accessors',
         'DESIGN.md §7 C04')

register('C12',
         'Coq theorems about `build` (mirror of ColumnReflector / TableBuilder / the tracker plugin column hook) for every configuration '
         '(unbounded column lists; attributes over the pcol alphabet): every non-excluded parent column is reflected with the same '
         'name, type and key flag and without uniqueness, auto-increment, on-update, defaults or foreign keys, nullable unless key; an '
         'excluded column has no counterpart; the key is the parent key plus the non-null transaction column; an end column exactly '
         'under the validity strategy; an operation-type column; one boolean flag column per non-key non-excluded column iff the tracker '
         'is on. Random configurations (types, attributes, key shapes, include/exclude, strategy, manager- and class-level column names, '
         'table-name format, schema, flat / joined / single-table inheritance / a many-to-many association table with its own key, payload columns and NOT NULL reference columns, tracker) are built on the real code, the version Table is '
         'reflected into records and compared with `build` and with the property clauses; tables are created and a NULL-filled row '
         'round-tripped; version_class/parent_class are checked to be inverse bijections. The model function `build` IS the code: Gen/SchemaGen.v is regenerated on every build from the current table_builder.py and property_mod_tracker.py by a fail-closed translator and proved equal to it (C12_build_is_the_code).',
         COMMON_NOTE + 'Names, types and formats are numbered injectively per case. "Every other column nullable" is read as every reflected '
         'parent column outside the key (operation_type is NOT NULL by design). Association version tables are built by the same `build` with no exclusions and no flag columns.',
         'Coq proof (list reasoning over the column list) + reflection of real Table objects evaluated by vm_compute',
         'DESIGN.md §7 C12')

register('C14',
         'FULL over the model, PARTIAL only for the missing PostgreSQL server. Coq theorem C14_trigger_program_equals_object_path: for '
         'every configuration with distinct column names and every sequence of row events grouped into transactions (several events on '
         'one row within one transaction, deletes and re-inserts, validity on/off, modification tracking on/off, excluded columns, '
         'events without an active transaction) the generated trigger program (gen + texec) leaves exactly the version rows of the '
         'object-based path (spec_run), by an inductive invariant (C14_one_event); its hypotheses are decidable and evaluated on every '
         'generated sequence. Further theorems: column/value alignment and completeness of the three upserts, exact excluded ARRAY, '
         'nothing without a transaction / for a no-op update. Tie to the code on every run: the text emitted by '
         'CreateTriggerFunctionSQL for random configurations is parsed (fail-closed) into the trigger AST and compared structurally with '
         '`gen cfg`; the parsed program is executed by texec on random multi-event sequences and compared (a) with the object-path '
         'specification and (b) with SQLite EXECUTING the generated SQL statements on the real version table (CTE upsert as '
         'UPDATE-then-INSERT, NEW/OLD as bind parameters). sync_trigger is run through a stub session on real tables. Two genuine '
         'defects that refuted the full statement were repaired in /repo (validity self-close, DELETE arm).',
         COMMON_NOTE + 'No PostgreSQL in the sandbox: texec is validated against SQLite executing the generated statements; differences '
         'between SQLite and PostgreSQL on these statement forms (UPDATE/INSERT with equality predicates, MIN subquery, IS DISTINCT '
         'FROM ~ IS NOT, boolean OR), the PL/pgSQL control flow and the hstore no-op guard remain trusted.',
         'Coq proof (inductive invariant over event sequences) + fail-closed parser of the generated PL/pgSQL + vm_compute execution of the parsed program + execution of the generated SQL by SQLite',
         'DESIGN.md §7 C14')

register('C18',
         'Coq theorems: the pointer computed for an activity (in-flight version of the current transaction, else the maximal stored id of '
         'the entity) is the transaction id of the newest version at or before the current transaction, given that the current id is at '
         'least every stored id - which is proved for every reachable state; an object that is neither new nor deleted nor changed (an '
         'old activity) does not make the session count as modified, so no transaction record is created. Histories that keep activity '
         'objects referenced across later transactions in which the entity is updated, deleted or untouched, and transactions touching '
         'only non-versioned classes, are run on the real code; after every flush / commit: first flush = current transaction and '
         'pointers = newest version at or before it, committed activities never change, no record without a versioned change.',
         COMMON_NOTE + 'Pending activities enter the model as objects of a pseudo class; the activity rows themselves are compared on the '
         'snapshots only. The property\'s premise (activity added after its object\'s changes were flushed) is encoded in the predicate.',
         'Coq proof (max/as-of lemma + reachable-state invariant) + vm_compute replay of recorded traces',
         'DESIGN.md §7 C18')

register('C06',
         'PARTIAL (process death only). Coq theorems over the Layer-B machine: whatever happened inside a transaction (any number of flushes, any partial work), '
         'a rollback restores the committed database and the initial unit of work; from a transaction boundary, run (p1 ++ failed ++ '
         '[Rollback] ++ rest) = run (p1 ++ rest) as whole states - the rest of the program is versioned exactly as if the rolled-back '
         'transaction had never been attempted. Savepoints: a rolled back savepoint restores the database AND the unit of work, the whole '
         'state is as if the inner work had never been attempted (the clause was refuted for the original code and is proved since the '
         'repair of F-C06-savepoint-inner-flush). In memory: no unit of work / map entry after a rollback (Layer M); clear and '
         'clear_connection of the model are generated from manager.py on every build; the savepoint snapshot of the current unit_of_work.py is read by a translator on every build and proved complete (every field captured and restored, mutable ones as copies: C06_savepoint_state_is_complete_in_the_code). Tie to the code: fault '
         'injection through before_cursor_execute at statement boundaries of a chosen transaction (quick: first, last, 4 random; '
         'thorough: every boundary), comparing all tables and the manager maps after the rollback with the state before, and the final '
         'tables with the run from which the failed transaction is deleted; savepoint histories (rollback / release / rollback of the '
         'connection from outside / close with an open savepoint / a flush FAILING inside the savepoint after a versioned INSERT went through / Core statements on the association table inside the savepoint, begun after a relationship-only flush or a hand-made record) over several classes, all tables compared after every event; per database transaction exactly one record carries all rows written (one_tx) and the association versions replay to the live links (links_replay).'
         ' The manager\'s side of a savepoint rollback (session_unit_of_work, rollback_savepoint) is regenerated from manager.py on every build '
         '(harness/pytrans_sp.py, Gen/ManagerSpGen.v) and proved equal to the model; in any interleaving of independent sessions every session is the '
         'single-session savepoint machine (C06_every_session_is_the_savepoint_machine). Savepoint histories include two levels, released inner '
         'savepoints under a rolled back outer one, a transaction record created inside the savepoint, and a bystander session opening savepoints.',
         COMMON_NOTE + 'Process death (torn files) is the database journal\'s business and cannot be exhibited by the model (atomic database by '
         'assumption). The injected failure is an exception raised before the statement is sent.',
         'Coq proof (state equality + determinism of the step function) + fault enumeration at statement boundaries + vm_compute replay',
         'DESIGN.md §7 C06')

register('C09',
         'Coq theorems over Layer M (the manager\'s units_of_work and session_connection_map with unit_of_work(), clear(), '
         'clear_connection() and their sweeps, track_cloned_connections()): locality - a step of another independent session changes nothing this session can see; '
         'non-interference for ANY number of sessions and ANY interleaving - what a session sees after the whole schedule equals what it '
         'sees after its own steps alone, also when sessions set execution options on their connections (an independent session never adopts another unit of work); the map functions of the model ARE the code - Gen/ManagerGen.v is regenerated from the current manager.py by a fail-closed translator on every build and proved equal to register / clear / clear_connection / clone_track (C09_*_is_the_code); refinement - what a session sees of the manager in any interleaving is exactly the state of the Layer-B unit-of-work machine run on its own events, so the Layer-B theorems hold per session (C09_each_session_is_a_core_run); quiescence - after its rollback (and after its commit, once registered) a session has neither a '
         'unit of work nor a map entry. Tie to the code: 2 and 3 session programs are interleaved step by step, each session on its own '
         'SQLite database/engine/connection but sharing the one manager, mappers and version classes; after every event the two maps are '
         'read and compared with the model, at the end each database is compared with the solo run of its program (exact equality). '
         'Sessions that open, roll back and release savepoints: Layer M with savepoints (Model/ManagerSp.v: track_savepoint, '
         'rollback_savepoint, forget_savepoints) with the same locality / interleaving-equals-solo-run theorems and a refinement '
         'to the single-session savepoint machine of C06 for every session of every interleaving; such schedules are replayed in '
         'that model step by step. Transaction attributes supplied by a plugin for some sessions only are compared with the solo runs.',
         COMMON_NOTE + 'Steps are atomic session calls in one thread. Connection-bound sessions; DB-API connection identity and the closed flag '
         'are environment functions of the model.',
         'Coq proof (frame lemma per step + induction over the interleaving) + executed interleavings compared with solo runs',
         'DESIGN.md §7 C09')

register('C05',
         'PARTIAL. Coq theorems about the revert model (Reverter on the Article-Tag-Label shape, one level of relationships): a '
         'non-delete version restores exactly its versioned columns, re-creating the entity if needed, and leaves the excluded column and '
         'every other entity untouched; a delete version leaves the entity absent whether or not it was live; unnamed relationships are '
         'untouched; named many-to-many links become exactly the targets the version shows; after a named one-to-many revert every tag '
         'pointing at the article is one the version shows (children added since go away). Which children / links a version shows is C04; '
         'that the revert is versioned like any other change is C01 on the recorded revert transaction. Histories are run on the real '
         'code, a version (first / middle / last / delete; entity live or deleted) and a relationship subset are chosen, revert + commit '
         'executed, and the live tables compared with the model and with the property clauses.',
         COMMON_NOTE + 'Dotted relationship paths of two and three segments are generated; the functional revert model has one level. Below it '
         'the traversal `reach` (first_level / subpaths of reverter.py, characterised by C05_first_level_spec / C05_subpaths_spec, and the '
         'relationship functions of C04) lists the versions the call visits; when no entity other than the root is reached twice every '
         'reached entity must hold the values of the version it was reached by and a reached article whose path goes on with tags must have '
         'exactly the tags that version shows (observation predicate nested_ok, no theorem); otherwise only the clauses about the reverted '
         'entity itself are judged. A quarter of the cases revert a second time to the same version in the same session.',
         'Coq proof (equational reasoning on the revert function) + vm_compute correspondence against version.revert()',
         'DESIGN.md §7 C05')

ALL = ['C%02d' % i for i in range(1, 21)]


def main():
    import importlib.util
    extra = os.path.join(VERIF, 'harness', 'manifest_entries.py')
    if os.path.exists(extra):
        spec = importlib.util.spec_from_file_location('manifest_entries', extra)
        m = importlib.util.module_from_spec(spec)
        m.register = register
        m.COMMON_NOTE = COMMON_NOTE
        m.NA = NA
        spec.loader.exec_module(m)
    man = dict(
        version=1,
        setup_cmd='cd /verif/coq && python3 /verif/harness/pytrans.py; rm -f Makefile Makefile.conf && coq_makefile -f _CoqProject $(ls Model/*.v Gen/*.v Proofs/*.v Checks/*.v Props/*.v 2>/dev/null) -o Makefile && timeout 3000 make -j16',
        hooks=dict(guard='SQLALCHEMY_CONTINUUM_VERIF', enable='no hooks are needed: the harness observes through public SQLAlchemy events and the manager\'s public attributes',
                   baseline_off_cmd='cd /repo && /venv/bin/python -m pytest -ra -q -p no:cacheprovider --timeout=900 --continue-on-collection-errors',
                   source_commits=[], add_only=True),
        engines=[dict(name='coq-model+correspondence', path='/verif/check',
                      serves_properties=sorted(CHECKS), kind_free_text='Coq 8.16.1 model and theorems (coq/), correspondence harness running the real code on SQLite (harness/), verdicts evaluated by vm_compute inside coqc')],
        checks=[CHECKS[k] for k in sorted(CHECKS)],
        notes='See DESIGN.md. known_findings.json lists fixed and open findings.',
        not_applicable=[dict(property_id=p, reason=NA.get(p, 'not yet claimed: the check for this property is still being built (see DESIGN.md §11 order of work)'))
                        for p in ALL if p not in CHECKS],
    )
    with open(os.path.join(VERIF, 'MANIFEST.json'), 'w') as f:
        json.dump(man, f, indent=1)
    print('wrote MANIFEST.json with', len(CHECKS), 'checks')


if __name__ == '__main__':
    main()
