"""C12 — the version schema is derived correctly for every model configuration."""
import json

import env as E
from framework import gZ, gbool, glist, gpair

PROP = 'C12'
CHECK_MODS = ['Model.Schema', 'Checks.C12chk']
CASE_TYPE = 'C12_case'
CORR, PROPCHK = 'C12_corr', 'C12_prop'
THEOREMS = ['C12_kept_column_reflected', 'C12_excluded_column_absent', 'C12_primary_key', 'C12_transaction_column',
            'C12_other_columns_nullable', 'C12_end_column_iff_validity', 'C12_operation_type_column',
            'C12_flag_columns', 'C12_no_flag_columns_without_tracker', 'C12_build_is_the_code',
            'C12_reflect_column_is_the_code', 'C12_example', 'C12_keyless_parent_key_is_transaction_only',
            'C12_keyless_refuted']
RULE = ('random model configurations: 1-6 columns with random type (Integer, Unicode, Boolean, DateTime), nullable / unique / '
        'index / autoincrement / default / server_default / onupdate / foreign key / aliased attribute name, 1-2 key '
        'columns, include / exclude subsets, strategy, custom names of the three internal columns (manager- or class-level), '
        'table-name format, schema, kind (flat model, joined child, single-table child, or a many-to-many ASSOCIATION TABLE '
        'with its own key, payload columns and two NOT NULL reference columns, versioned through the relationship), tracker plugin on/off; the '
        'real declarative models are built, mappers configured, the version Table reflected into column records, tables '
        'created and a NULL-filled row inserted and read back. Non-trivial: >= 3 columns with at least one excluded '
        'column and one column carrying unique / default / onupdate / foreign key. Distinct: hash of the configuration.')
ASSUMPTIONS = ['names, types and formats are numbered injectively per case before reaching the model',
               '"every other column nullable" is read as: every reflected parent column outside the key (operation_type is NOT NULL by design)']

TYPES = ['Integer', 'Unicode', 'Boolean', 'DateTime']
TCODE = {'BigInteger': -1, 'SmallInteger': -2, 'Boolean': -3, 'Integer': 10, 'Unicode': 11, 'DateTime': 12}


def budget(tier):
    return 240 if tier == 'quick' else 3000


def gen_cfg(rng, i):
    ncols = rng.randint(1, 6)
    cols = []
    npk = rng.choice([1, 1, 2])
    for j in range(npk):
        cols.append(dict(name='k%d' % j, key='k%d' % j, type='Integer', pk=True, nullable=False, unique=False, index=False,
                         autoinc=(npk == 1 and rng.random() < 0.5), default=False, sdefault=False, onupdate=False, fk=False))
    for j in range(ncols):
        name = 'c%d' % j
        aliased = rng.random() < 0.2
        cols.append(dict(name=name + ('_col' if aliased else ''), key=name, type=rng.choice(TYPES), pk=False,
                         nullable=rng.random() < 0.6, unique=rng.random() < 0.25, index=rng.random() < 0.25, autoinc=False,
                         default=rng.random() < 0.3, sdefault=rng.random() < 0.2, onupdate=rng.random() < 0.25,
                         fk=rng.random() < 0.2))
    nonpk = [c['key'] for c in cols if not c['pk']]
    exclude = [k for k in nonpk if rng.random() < 0.35]
    include = [k for k in exclude if rng.random() < 0.3]
    custom = rng.random() < 0.4
    inherit = rng.choice(['flat', 'flat', 'joined', 'single', 'assoc'])
    if inherit == 'assoc' and custom:
        names_level = 'manager'      # an association table has no class whose __versioned__ could carry the names
    else:
        names_level = rng.choice(['manager', 'class']) if custom else 'manager'
    # a mixin that brings some of the columns together with a __versioned__ of its own excluding them; the model's own
    # options (exclude / include) come first, an exclusion declared by an ancestor applies otherwise
    mixin_exclude = []
    if inherit == 'flat' and nonpk and rng.random() < 0.35:
        mixin_exclude = [k for k in nonpk if rng.random() < 0.5] or [nonpk[0]]
        if rng.random() < 0.7:
            include = sorted(set(include) | {rng.choice(mixin_exclude)})
    return dict(cols=cols, exclude=exclude, include=include, mixin_exclude=mixin_exclude,
                sti_below=(inherit == 'joined' and rng.random() < 0.5),
                strategy=rng.choice(['validity', 'subquery']), tracker=rng.random() < 0.4,
                names=(['tx_id', 'end_tx_id', 'op_type'] if custom else ['transaction_id', 'end_transaction_id', 'operation_type']),
                names_level=names_level,
                table_fmt=rng.choice(['%s_version', '%s_version', '%s_history', 'v_%s']),
                # the table-name format given in the class's own __versioned__ (the manager keeps its default)
                table_level=('class' if inherit != 'assoc' and rng.random() < 0.25 else 'manager'),
                schema=rng.choice([None, None, 'other']),
                # a default schema on the MetaData ('main' is SQLite's own name for the primary database); a table-level
                # schema overrides it, and the version table follows the PARENT TABLE
                meta_schema=rng.choice([None, None, None, 'main']),
                inherit=inherit)


def gen_cases(rng, n, tier):
    return [dict(cfg=gen_cfg(rng, i)) for i in range(n)]


def corpus():
    c = dict(cols=[dict(name='k0', key='k0', type='Integer', pk=True, nullable=False, unique=False, index=False, autoinc=True,
                        default=False, sdefault=False, onupdate=False, fk=False),
                   dict(name='c0', key='c0', type='Unicode', pk=False, nullable=False, unique=True, index=True, autoinc=False,
                        default=True, sdefault=True, onupdate=True, fk=False),
                   dict(name='c1', key='c1', type='Integer', pk=False, nullable=True, unique=False, index=False, autoinc=False,
                        default=False, sdefault=False, onupdate=False, fk=True)],
             exclude=[], include=[], strategy='validity', tracker=True,
             names=['tx_id', 'end_tx_id', 'op_type'], names_level='class', table_fmt='%s_history', schema=None, inherit='joined')
    return [dict(cfg=c)]


def sa_type(sa, t):
    return {'Integer': sa.Integer, 'Unicode': lambda: sa.Unicode(10), 'Boolean': sa.Boolean, 'DateTime': sa.DateTime}[t]()


def make_build(cfg):
    import sqlalchemy as sa
    import datetime

    def pydefault(t):
        return {'Integer': 5, 'Unicode': 'd', 'Boolean': True, 'DateTime': datetime.datetime(2020, 1, 1)}[t]

    def mkcol(c, pk_fk=None):
        args = [c['name'], sa_type(sa, c['type'])]
        if c['fk']:
            args.append(sa.ForeignKey('ref.id'))
        if pk_fk is not None:
            args.append(sa.ForeignKey(pk_fk))
        kw = dict(primary_key=c['pk'], nullable=c['nullable'] if not c['pk'] else False,
                  unique=c['unique'] or None, index=c['index'] or None)
        if c['pk']:
            kw['autoincrement'] = c['autoinc']
        if c['default']:
            kw['default'] = pydefault(c['type'])
        if c['sdefault']:
            kw['server_default'] = sa.text("'1'") if c['type'] != 'Integer' else sa.text('1')
        if c['onupdate']:
            kw['onupdate'] = pydefault(c['type'])
        return sa.Column(*args, **kw)

    def build(env, Base, opts):
        sa.Table('ref', Base.metadata, sa.Column('id', sa.Integer, primary_key=True))
        vo = dict(opts)
        vo['exclude'] = list(cfg['exclude'])
        vo['include'] = list(cfg['include'])
        if cfg['names_level'] == 'class':
            vo['transaction_column_name'], vo['end_transaction_column_name'], vo['operation_type_column_name'] = cfg['names']
        if cfg.get('table_level') == 'class':
            vo['table_name'] = cfg['table_fmt']
        targs = {'schema': cfg['schema']} if cfg['schema'] else {}
        if cfg['inherit'] == 'flat':
            attrs = {'__tablename__': 'm', '__versioned__': vo, '__table_args__': targs}
            mx = cfg.get('mixin_exclude') or []
            mattrs = {'__versioned__': {'exclude': list(mx)}}
            for c in cfg['cols']:
                if c['key'] in mx and not c['fk']:
                    mattrs[c['key']] = mkcol(c)          # declared on the mixin (copied to the model by declarative)
                else:
                    attrs[c['key']] = mkcol(c)
            bases = (type('Mixin', (object,), mattrs), Base) if mx else (Base,)
            env.target = type('M', bases, attrs)
            env.parent_table = env.target.__table__
            env.others = []
        elif cfg['inherit'] == 'joined':
            P = type('P', (Base,), {'__tablename__': 'p', '__versioned__': dict(vo, exclude=[], include=[]),
                                   '__table_args__': targs,
                                   'id': sa.Column(sa.Integer, primary_key=True, autoincrement=False),
                                   'kind': sa.Column(sa.Unicode(10)),
                                   '__mapper_args__': {'polymorphic_on': 'kind', 'polymorphic_identity': 'p'}})
            attrs = {'__tablename__': 'm', '__table_args__': targs, '__mapper_args__': {'polymorphic_identity': 'm'},
                     '__versioned__': vo}
            pkcols = [c for c in cfg['cols'] if c['pk']]
            # joined child: its key is the parent's key
            attrs['id'] = mkcol(dict(pkcols[0], name='id', key='id', autoinc=False),
                                pk_fk=((cfg['schema'] or cfg.get('meta_schema')) + '.p.id' if (cfg['schema'] or cfg.get('meta_schema')) else 'p.id'))
            for c in cfg['cols']:
                if not c['pk']:
                    attrs[c['key']] = mkcol(c)
            env.target = type('M', (P,), attrs)
            env.parent_table = env.target.__table__
            env.others = [P]
            if cfg.get('sti_below'):
                # a single-table subclass BELOW the joined child: its column lives in the child's table
                S = type('S', (env.target,), {'__mapper_args__': {'polymorphic_identity': 's'}, '__versioned__': dict(vo),
                                              'extra': sa.Column(sa.Integer)})
                env.others = [P, S]
        elif cfg['inherit'] == 'assoc':
            # the configured columns make up a many-to-many association TABLE (no model): its own key columns, the
            # random payload columns and two NOT NULL reference columns; it is versioned through the relationship
            pfx = (cfg['schema'] or cfg.get('meta_schema')) + '.' if (cfg['schema'] or cfg.get('meta_schema')) else ''
            t = sa.Table('m', Base.metadata, *([mkcol(c) for c in cfg['cols']] +
                                               [sa.Column('l_id', sa.Integer, sa.ForeignKey(pfx + 'a.id'), nullable=False),
                                                sa.Column('r_id', sa.Integer, sa.ForeignKey(pfx + 'b.id'), nullable=False)]),
                         **targs)
            A = type('A', (Base,), {'__tablename__': 'a', '__versioned__': dict(vo, exclude=[], include=[]),
                                   '__table_args__': targs, 'id': sa.Column(sa.Integer, primary_key=True)})
            B = type('B', (Base,), {'__tablename__': 'b', '__versioned__': dict(vo, exclude=[], include=[]),
                                   '__table_args__': targs, 'id': sa.Column(sa.Integer, primary_key=True),
                                   'as_': sa.orm.relationship(A, secondary=t, backref='bs')})
            env.target = None
            env.parent_table = t
            env.others = [A, B]
        else:
            attrs = {'__tablename__': 'm', '__versioned__': vo, '__table_args__': targs,
                     'kind': sa.Column(sa.Unicode(10)),
                     '__mapper_args__': {'polymorphic_on': 'kind', 'polymorphic_identity': 'm'}}
            for c in cfg['cols']:
                attrs[c['key']] = mkcol(c)
            M = type('M', (Base,), attrs)
            S = type('S', (M,), {'__mapper_args__': {'polymorphic_identity': 's'},
                                 '__versioned__': dict(vo),
                                 'extra': sa.Column(sa.Integer)})
            env.target = M
            env.parent_table = M.__table__
            env.others = [S]
    return build


def effective_cols(cfg):
    cols = [dict(c) for c in cfg['cols']]
    if cfg['inherit'] == 'joined':
        pk = [c for c in cols if c['pk']][0]
        cols = [dict(pk, name='id', key='id', autoinc=False, fk=True)] + [c for c in cols if not c['pk']]
        if cfg.get('sti_below'):
            cols = cols + [dict(name='extra', key='extra', type='Integer', pk=False, nullable=True, unique=False, index=False,
                                autoinc=False, default=False, sdefault=False, onupdate=False, fk=False)]
    elif cfg['inherit'] == 'single':
        cols = ([dict(name='kind', key='kind', type='Unicode', pk=False, nullable=True, unique=False, index=False,
                      autoinc=False, default=False, sdefault=False, onupdate=False, fk=False)] + cols +
                [dict(name='extra', key='extra', type='Integer', pk=False, nullable=True, unique=False, index=False,
                      autoinc=False, default=False, sdefault=False, onupdate=False, fk=False)])
    elif cfg['inherit'] == 'assoc':
        ref = dict(type='Integer', pk=False, nullable=False, unique=False, index=False, autoinc=False, default=False,
                   sdefault=False, onupdate=False, fk=True)
        cols = cols + [dict(ref, name='l_id', key='l_id'), dict(ref, name='r_id', key='r_id')]
    return cols


def _observe(cfg):
    import sqlalchemy as sa
    from sqlalchemy_continuum.plugins import PropertyModTrackerPlugin
    opts = {'strategy': cfg['strategy']}
    if cfg.get('table_level') != 'class':
        opts['table_name'] = cfg['table_fmt']
    if cfg['names_level'] == 'manager':
        opts['transaction_column_name'], opts['end_transaction_column_name'], opts['operation_type_column_name'] = cfg['names']
    plugins = [PropertyModTrackerPlugin()] if cfg['tracker'] else []
    try:
        env = E.Env(options=opts, plugins=plugins, build=make_build(cfg), attach=(['other'] if cfg['schema'] else []),
                    metadata_schema=cfg.get('meta_schema'))
        with env:
            sc = env.sc
            pt = env.parent_table
            if cfg['inherit'] == 'assoc':
                vt = env.Base.metadata.tables[(pt.schema + '.' if pt.schema else '') + cfg['table_fmt'] % pt.name]
            else:
                vt = sc.version_class(env.target).__table__
            obs = []
            for c in vt.c:
                tname = type(c.type).__name__
                obs.append(dict(name=c.name, type=tname, pk=bool(c.primary_key), nullable=bool(c.nullable),
                                unique=bool(c.unique), autoinc=(vt._autoincrement_column is c) or c.autoincrement is True,
                                default=c.default is not None, sdefault=c.server_default is not None,
                                onupdate=c.onupdate is not None, fk=bool(c.foreign_keys)))
            name_ok = vt.name == cfg['table_fmt'] % pt.name
            schema_ok = vt.schema == pt.schema
            classes = ([env.target] if env.target is not None else []) + list(env.others)
            maps_ok = True
            seen = []
            for cls in classes:
                vc = sc.version_class(cls)
                if vc is cls or sc.parent_class(vc) is not cls or vc in seen:
                    maps_ok = False
                seen.append(vc)
            shape_ok = True
            if cfg['inherit'] == 'single':
                shape_ok = sc.version_class(env.others[0]).__table__ is vt
            elif cfg['inherit'] == 'joined':
                pvt = sc.version_class(env.others[0]).__table__
                shape_ok = pvt is not vt and cfg['names'][0] in pvt.c and cfg['names'][0] in vt.c
                # the parent's version table holds the parent's columns, the internal ones and (tracker) the flag of
                # its own non-key column - nothing that belongs to another table of the hierarchy
                want = {'id', 'kind', cfg['names'][0], cfg['names'][2]} | ({cfg['names'][1]} if cfg['strategy'] == 'validity' else set()) \
                    | ({'kind_mod'} if cfg['tracker'] else set())
                shape_ok = shape_ok and {c.name for c in pvt.c} == want
                if cfg.get('sti_below'):
                    shape_ok = shape_ok and sc.version_class(env.others[1]).__table__ is vt
            # NULL-filled round trip
            conn = env.connection
            row = {}
            for c in vt.c:
                if c.primary_key:
                    row[c.name] = 1
                elif c.name == cfg['names'][2]:
                    row[c.name] = 0
                elif c.name.endswith('_mod') and isinstance(c.type, sa.Boolean) and not c.nullable:
                    row[c.name] = False
                else:
                    row[c.name] = None
            conn.execute(vt.insert(), [row])
            back = dict(conn.execute(sa.select(vt)).mappings().first())
            conn.rollback()
            roundtrip_ok = all(back[k] == v for k, v in row.items())
            return dict(obs=obs, name_ok=name_ok, schema_ok=schema_ok, maps_ok=maps_ok, shape_ok=shape_ok,
                        roundtrip_ok=roundtrip_ok, exc=None)
    except Exception as e:
        import traceback
        return dict(obs=[], name_ok=False, schema_ok=False, maps_ok=False, shape_ok=False, roundtrip_ok=False,
                    exc='%s: %s | %s' % (type(e).__name__, str(e)[:200], traceback.format_exc()[-400:]))


def _worker(chunk):
    return [(idx, _observe(cfg)) for idx, cfg in chunk]


def run_impl(cases):
    items = [(i, c['cfg']) for i, c in enumerate(cases)]
    step = max(1, (len(items) + 15) // 16)
    chunks = [items[s:s + step] for s in range(0, len(items), step)]
    res = [None] * len(cases)
    for part in E.pmap(_worker, chunks):
        for idx, o in part:
            res[idx] = o
    return res


class Names(object):
    def __init__(self):
        self.d = {}

    def code(self, s):
        if s not in self.d:
            self.d[s] = len(self.d) + 1
        return self.d[s]


def encode(case, obs):
    cfg = case['cfg']
    nm = Names()
    cols = effective_cols(cfg)

    assoc = cfg['inherit'] == 'assoc'

    def excl(c):
        # include / exclude are options of a model; an association table has none. The model's own options first,
        # then an exclusion declared by an ancestor (the mixin)
        if assoc or c['key'] in cfg['include']:
            return False
        return c['key'] in cfg['exclude'] or c['key'] in (cfg.get('mixin_exclude') or [])

    def gp(c):
        return '(mkpc %s %s %s %s %s %s %s %s %s %s %s)' % (
            gZ(nm.code(c['name'])), gZ(TCODE[c['type']]), gbool(c['pk']), gbool(c['nullable'] and not c['pk']),
            gbool(c['unique']), gbool(c['autoinc']), gbool(c['default']), gbool(c['sdefault']), gbool(c['onupdate']),
            gbool(c['fk']), gbool(excl(c)))

    def gv(c):
        return '(mkvc %s %s %s %s %s %s %s %s %s %s)' % (
            gZ(nm.code(c['name'])), gZ(TCODE.get(c['type'], 99)), gbool(c['pk']), gbool(c['nullable']), gbool(c['unique']),
            gbool(c['autoinc']), gbool(c['default']), gbool(c['sdefault']), gbool(c['onupdate']), gbool(c['fk']))
    pcols = glist(cols, gp)
    mods = glist(cols, lambda c: gpair(gZ(nm.code(c['name'])), gZ(nm.code(c['name'] + '_mod'))))
    txn, endn, opn = [nm.code(x) for x in cfg['names']]
    return ('{| c12_cols := %s; c12_validity := %s; c12_tracker := %s; c12_internal := true; c12_txn := %s; c12_endn := %s; '
            'c12_opn := %s; c12_modnames := %s; c12_obs := %s; c12_name_ok := %s; c12_schema_ok := %s; c12_maps_ok := %s; '
            'c12_shape_ok := %s; c12_roundtrip_ok := %s; c12_exc := %s |}') % (
        pcols, gbool(cfg['strategy'] == 'validity'), gbool(cfg['tracker'] and not assoc), gZ(txn), gZ(endn), gZ(opn), mods,
        glist(obs['obs'], gv), gbool(obs['name_ok']), gbool(obs['schema_ok']), gbool(obs['maps_ok']),
        gbool(obs['shape_ok']), gbool(obs['roundtrip_ok']), gbool(obs['exc'] is not None))


def nontrivial(case, obs):
    cfg = case['cfg']
    cols = cfg['cols']
    ex = [c for c in cols if c['key'] in cfg['exclude'] and c['key'] not in cfg['include']]
    rich = [c for c in cols if c['unique'] or c['default'] or c['onupdate'] or c['fk']]
    return len(cols) >= 3 and bool(ex) and bool(rich)


def features(case, obs):
    cfg = case['cfg']
    f = ['inherit=' + cfg['inherit'], 'strategy=' + cfg['strategy'], 'names=' + cfg['names_level'] + ':' + cfg['names'][0],
         'fmt=' + cfg['table_fmt'], 'table_level=%s' % cfg.get('table_level'), 'schema=%s' % cfg['schema'], 'meta_schema=%s' % cfg.get('meta_schema'), 'tracker=%s' % cfg['tracker']]
    if obs['exc']:
        f.append('exception:' + obs['exc'].split(':')[0])
    return f


def shrink(case):
    cfg = case['cfg']
    out = []
    for i, c in enumerate(cfg['cols']):
        if not c['pk']:
            n = json.loads(json.dumps(cfg))
            del n['cols'][i]
            n['exclude'] = [k for k in n['exclude'] if k != c['key']]
            n['include'] = [k for k in n['include'] if k != c['key']]
            out.append(dict(cfg=n))
    for k, v in (('tracker', False), ('schema', None), ('inherit', 'flat'), ('table_fmt', '%s_version'), ('names_level', 'manager')):
        if cfg[k] != v:
            n = json.loads(json.dumps(cfg))
            n[k] = v
            out.append(dict(cfg=n))
    for i, c in enumerate(cfg['cols']):
        for a in ('unique', 'index', 'default', 'sdefault', 'onupdate', 'fk'):
            if c[a]:
                n = json.loads(json.dumps(cfg))
                n['cols'][i][a] = False
                out.append(dict(cfg=n))
    return out


def describe(case, obs):
    return dict(cfg=case['cfg'], observed=obs)
