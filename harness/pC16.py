"""C16 — end-transaction back-fill reproduces the validity chain from ids alone."""
import json

import env as E
import tables as T
from framework import gbool

PROP = 'C16'
CHECK_MODS = ['Model.VTable', 'Model.Backfill', 'Checks.C16chk']
CASE_TYPE = 'C16_case'
CORR, PROPCHK, PRE = 'C16_corr', 'C16_prop', 'C16_pre'
THEOREMS = ['C16_rows', 'C16_chain', 'C16_restores', 'C16_idempotent', 'C16_hyps_satisfiable']
RULE = ('random version tables (flat/composite keys, default/custom column names, transaction ids from 1..14 shared '
        'between entities) whose end column is wiped, partially wiped, already consistent, or garbage are loaded with '
        'Core INSERTs; schema.update_end_tx_column is run once and twice and the table is read back. Non-trivial: >= 2 '
        'entities, one with >= 3 rows, and two entities sharing a transaction id. Distinct: hash of the canonical input.')
ASSUMPTIONS = ['transaction ids are positive (the tool skips falsy values)',
               'the version table primary key is enforced by the database']
CFG_LIST = [c for c in T.CFGS if c['strategy'] == 'validity']


def budget(tier):
    return 300 if tier == 'quick' else 4000


def gen_cases(rng, n, tier):
    out = []
    for i in range(n):
        cfg = CFG_LIST[i % len(CFG_LIST)]
        rows = T.gen_table(rng, cfg, chain=True)
        mode = rng.choice(['wiped', 'wiped', 'chain', 'partial', 'garbage'])
        for r in rows:
            if mode == 'wiped' or (mode == 'partial' and rng.random() < 0.5):
                r['end'] = None
            elif mode == 'garbage':
                r['end'] = rng.choice([None, rng.randint(1, 15)])
        out.append(dict(cfg=cfg, mode=mode, rows=rows))
    return out


def _observe(env, cfg, rows):
    from sqlalchemy_continuum.schema import update_end_tx_column
    T.load_rows(env, cfg, rows, with_parents=False)
    txc, endc = T.colnames(cfg)
    vt = env.version_class(env.Article).__table__
    try:
        update_end_tx_column(vt, end_tx_column_name=endc, tx_column_name=txc, conn=env.connection)
        env.connection.commit()
        a1 = T.read_rows(env, cfg)
        update_end_tx_column(vt, end_tx_column_name=endc, tx_column_name=txc, conn=env.connection)
        env.connection.commit()
        a2 = T.read_rows(env, cfg)
        return dict(after1=a1, after2=a2, exc=None)
    except Exception as e:
        env.connection.rollback()
        return dict(after1=[], after2=[], exc='%s: %s' % (type(e).__name__, str(e)[:200]))


def _worker(chunk):
    cfg, items = chunk
    out = []
    with E.Env(options=T.cfg_options(cfg), build=T.build_article(cfg)) as env:
        for idx, rows in items:
            out.append((idx, _observe(env, cfg, rows)))
    return out


def run_impl(cases):
    groups = {}
    for i, c in enumerate(cases):
        groups.setdefault(json.dumps(c['cfg'], sort_keys=True), []).append((i, c['rows']))
    chunks = []
    for k, items in groups.items():
        step = max(1, (len(items) + 3) // 4)
        for s in range(0, len(items), step):
            chunks.append((json.loads(k), items[s:s + step]))
    res = [None] * len(cases)
    for part in E.pmap(_worker, chunks):
        for idx, o in part:
            res[idx] = o
    return res


def encode(case, obs):
    return '{| c16_tbl := %s; c16_after1 := %s; c16_after2 := %s; c16_exc := %s |}' % (
        T.gtable(case['rows']), T.gtable(obs['after1']), T.gtable(obs['after2']), gbool(obs['exc'] is not None))


def nontrivial(case, obs):
    by = {}
    for r in case['rows']:
        by.setdefault(tuple(r['key']), []).append(r['tx'])
    if len(by) < 2 or max(len(v) for v in by.values()) < 3:
        return False
    ks = list(by)
    return any(set(by[a]) & set(by[b]) for i, a in enumerate(ks) for b in ks[i + 1:])


def features(case, obs):
    return ['mode=' + case['mode'], 'key=' + case['cfg']['keyshape'], 'names=' + case['cfg']['names']]


def shrink(case):
    return [dict(cfg=case['cfg'], mode=case['mode'], rows=rows) for rows in T.shrink_rows(case['rows'])]


def describe(case, obs):
    return dict(cfg=case['cfg'], mode=case['mode'], version_table_rows=case['rows'], observed=obs)
