"""pytrans_uow.py - fail-closed translator of the savepoint bookkeeping of UnitOfWork (C06).

Model/Savepoint.v saves and restores the WHOLE unit of work at a savepoint.  The code does it field by field:

    UnitOfWork.reset()                  initialises the fields of the unit of work
    UnitOfWork.savepoint()              returns dict(field=<snapshot of self.field>, ...)
    UnitOfWork.rollback_to_savepoint()  puts state[field] back (None: reset())

This translator reads the three methods from the CURRENT unit_of_work.py and emits coq/Gen/UowGen.v: the list of
fields reset() initialises (with the kind of their initial value), the fields savepoint() captures (with the way it
captures them: by reference, as a copy, or as a rebuilt list of the operations) and the fields rollback_to_savepoint()
restores.  Proofs/UowGenP.v proves from these lists that every field of the state is captured and restored, and that
every mutable field is captured as a COPY (a snapshot that aliases a list or dict the unit of work keeps mutating is
no snapshot) - the abstraction Model/Savepoint.v makes.  Anything outside the expected shape (a conditional return, a
field that is not restored, ...) makes the translator refuse: the generated file does not compile and the proof
obligations of C06 fail.
"""
import ast
import os


class Unsupported(Exception):
    pass


def _src(node):
    try:
        return ast.unparse(node)
    except Exception:
        return '<node>'


def _method(cls, name):
    for n in cls.body:
        if isinstance(n, ast.FunctionDef) and n.name == name:
            return n
    raise Unsupported('UnitOfWork.%s not found' % name)


def _body(fn):
    body = list(fn.body)
    if body and isinstance(body[0], ast.Expr) and isinstance(getattr(body[0], 'value', None), ast.Constant) \
            and isinstance(body[0].value.value, str):
        body = body[1:]
    return body


def _self_attr(node):
    if isinstance(node, ast.Attribute) and isinstance(node.value, ast.Name) and node.value.id == 'self':
        return node.attr
    return None


# kinds of initial values
K_NONE, K_LIST, K_DICT, K_OPS = 0, 1, 2, 3
# ways of capturing
C_REF, C_COPY, C_OPS = 0, 1, 2


def reset_fields(fn):
    out = []
    for st in _body(fn):
        if not (isinstance(st, ast.Assign) and len(st.targets) == 1 and _self_attr(st.targets[0])):
            raise Unsupported('reset: statement %s' % _src(st))
        f, v = _self_attr(st.targets[0]), st.value
        if isinstance(v, ast.Constant) and v.value is None:
            k = K_NONE
        elif isinstance(v, ast.List) and not v.elts:
            k = K_LIST
        elif isinstance(v, ast.Dict) and not v.keys:
            k = K_DICT
        elif isinstance(v, ast.Call) and isinstance(v.func, ast.Name) and v.func.id == 'Operations' and not v.args:
            k = K_OPS
        else:
            raise Unsupported('reset: initial value of %s: %s' % (f, _src(v)))
        if any(f == g for g, _ in out):
            raise Unsupported('reset: %s assigned twice' % f)
        out.append((f, k))
    return out


def _is_ops_snapshot(v):
    """[(key, operation.target, operation.type, operation.processed) for key, operation in self.operations.items()]"""
    if not (isinstance(v, ast.ListComp) and len(v.generators) == 1):
        return False
    g = v.generators[0]
    if g.ifs or not (isinstance(g.iter, ast.Call) and isinstance(g.iter.func, ast.Attribute) and g.iter.func.attr == 'items'
                     and _self_attr(g.iter.func.value) == 'operations' and not g.iter.args):
        return False
    if not (isinstance(g.target, ast.Tuple) and len(g.target.elts) == 2 and all(isinstance(e, ast.Name) for e in g.target.elts)):
        return False
    kname, oname = g.target.elts[0].id, g.target.elts[1].id
    if not (isinstance(v.elt, ast.Tuple) and len(v.elt.elts) == 4):
        return False
    e = v.elt.elts
    ok = isinstance(e[0], ast.Name) and e[0].id == kname
    for node, attr in zip(e[1:], ('target', 'type', 'processed')):
        ok = ok and isinstance(node, ast.Attribute) and node.attr == attr and isinstance(node.value, ast.Name) and node.value.id == oname
    return ok


def savepoint_fields(fn, fields):
    body = _body(fn)
    if not (len(body) == 1 and isinstance(body[0], ast.Return) and isinstance(body[0].value, ast.Call)
            and isinstance(body[0].value.func, ast.Name) and body[0].value.func.id == 'dict' and not body[0].value.args):
        raise Unsupported('savepoint: body is not a single `return dict(...)`: %s' % _src(ast.Module(body=body, type_ignores=[]))[:200])
    names = dict(fields)
    out = []
    for kw in body[0].value.keywords:
        if kw.arg is None:
            raise Unsupported('savepoint: **kwargs')
        v = kw.value
        if kw.arg not in names:
            continue            # extra information (e.g. the objects of the version session) is allowed
        f = kw.arg
        if _self_attr(v) == f:
            how = C_REF
        elif isinstance(v, ast.Call) and isinstance(v.func, ast.Name) and v.func.id in ('list', 'dict') and len(v.args) == 1 \
                and _self_attr(v.args[0]) == f and not v.keywords:
            if (v.func.id == 'list') != (names[f] == K_LIST):
                raise Unsupported('savepoint: %s copied with %s()' % (f, v.func.id))
            how = C_COPY
        elif f == 'operations' and _is_ops_snapshot(v):
            how = C_OPS
        else:
            raise Unsupported('savepoint: value captured for %s: %s' % (f, _src(v)))
        out.append((f, how))
    return out


def restored_fields(fn, fields):
    """statements after the `if state is None: self.reset(); return` guard: self.f = state['f'], or the rebuild of the
    operations from the captured tuples"""
    params = [a.arg for a in fn.args.args]
    if params != ['self', 'state']:
        raise Unsupported('rollback_to_savepoint: parameters %s' % params)
    body = _body(fn)
    guard = None
    for i, st in enumerate(body):
        if isinstance(st, ast.If) and isinstance(st.test, ast.Compare) and isinstance(st.test.left, ast.Name) \
                and st.test.left.id == 'state' and len(st.test.ops) == 1 and isinstance(st.test.ops[0], ast.Is) \
                and isinstance(st.test.comparators[0], ast.Constant) and st.test.comparators[0].value is None:
            b = st.body
            if len(b) == 2 and isinstance(b[0], ast.Expr) and isinstance(b[0].value, ast.Call) \
                    and _self_attr(b[0].value.func) == 'reset' and not b[0].value.args and isinstance(b[1], ast.Return) \
                    and b[1].value is None and not st.orelse:
                guard = i
                break
    if guard is None:
        raise Unsupported('rollback_to_savepoint: no `if state is None: self.reset(); return`')
    # before the guard only the version session may be touched (objects of rolled-back rows are dropped)
    for st in body[:guard]:
        for node in ast.walk(st):
            targets = node.targets if isinstance(node, ast.Assign) else [node.target] if isinstance(node, ast.AugAssign) else []
            for t in targets:
                for sub in ast.walk(t):
                    if _self_attr(sub):
                        raise Unsupported('rollback_to_savepoint: a field is assigned before the guard: %s' % _src(node))
    names = dict(fields)
    out = []
    rest = body[guard + 1:]
    i = 0
    while i < len(rest):
        st = rest[i]
        if isinstance(st, ast.Assign) and len(st.targets) == 1 and _self_attr(st.targets[0]):
            f, v = _self_attr(st.targets[0]), st.value
            if isinstance(v, ast.Subscript) and isinstance(v.value, ast.Name) and v.value.id == 'state' \
                    and isinstance(v.slice, ast.Constant) and v.slice.value == f:
                out.append(f)
                i += 1
                continue
            if f == 'operations' and isinstance(v, ast.Call) and isinstance(v.func, ast.Name) and v.func.id == 'Operations' \
                    and not v.args and i + 1 < len(rest) and _is_ops_rebuild(rest[i + 1]):
                out.append(f)
                i += 2
                continue
        raise Unsupported('rollback_to_savepoint: statement %s' % _src(st)[:200])
    for f in out:
        if f not in names:
            raise Unsupported('rollback_to_savepoint: restores unknown field %s' % f)
    return out


def _is_ops_rebuild(st):
    """for key, target, type_, processed in state['operations']:
           operation = Operation(target, type_); operation.processed = processed; self.operations[key] = operation"""
    if not (isinstance(st, ast.For) and isinstance(st.target, ast.Tuple) and len(st.target.elts) == 4 and not st.orelse):
        return False
    k, t, ty, pr = [e.id if isinstance(e, ast.Name) else None for e in st.target.elts]
    it = st.iter
    if not (isinstance(it, ast.Subscript) and isinstance(it.value, ast.Name) and it.value.id == 'state'
            and isinstance(it.slice, ast.Constant) and it.slice.value == 'operations'):
        return False
    b = st.body
    if len(b) != 3:
        return False
    a0, a1, a2 = b
    ok = isinstance(a0, ast.Assign) and isinstance(a0.targets[0], ast.Name) and isinstance(a0.value, ast.Call) \
        and isinstance(a0.value.func, ast.Name) and a0.value.func.id == 'Operation' \
        and [getattr(x, 'id', None) for x in a0.value.args] == [t, ty]
    if not ok:
        return False
    o = a0.targets[0].id
    ok = isinstance(a1, ast.Assign) and isinstance(a1.targets[0], ast.Attribute) and a1.targets[0].attr == 'processed' \
        and getattr(a1.targets[0].value, 'id', None) == o and getattr(a1.value, 'id', None) == pr
    ok = ok and isinstance(a2, ast.Assign) and isinstance(a2.targets[0], ast.Subscript) \
        and _self_attr(a2.targets[0].value) == 'operations' and getattr(a2.targets[0].slice, 'id', None) == k \
        and getattr(a2.value, 'id', None) == o
    return ok


FIELD_CODE = {'version_session': 1, 'current_transaction': 2, 'operations': 3, 'pending_statements': 4, 'version_objs': 5}

HEADER = """(* UowGen.v - GENERATED by harness/pytrans_uow.py from the current source of sqlalchemy_continuum/unit_of_work.py
   (UnitOfWork.reset / savepoint / rollback_to_savepoint).  Do not edit: rewritten on every build.
   Proofs/UowGenP.v proves from these lists that the savepoint state is a complete copy of the unit of work.
   Field codes: 1 version_session, 2 current_transaction, 3 operations, 4 pending_statements, 5 version_objs;
   any other field of the code gets a code >= 100.
   kinds of initial values: 0 None, 1 [], 2 {}, 3 Operations();  capture: 0 by reference, 1 copy, 2 rebuilt tuples *)
From Coq Require Import ZArith List.
Import ListNotations.
Open Scope Z_scope.

"""


def generate(repo, dst):
    try:
        tree = ast.parse(open(os.path.join(repo, 'sqlalchemy_continuum', 'unit_of_work.py')).read())
        cls = [n for n in tree.body if isinstance(n, ast.ClassDef) and n.name == 'UnitOfWork']
        if len(cls) != 1:
            raise Unsupported('class UnitOfWork not found')
        cls = cls[0]
        fields = reset_fields(_method(cls, 'reset'))
        saved = savepoint_fields(_method(cls, 'savepoint'), fields)
        restored = restored_fields(_method(cls, 'rollback_to_savepoint'), fields)
        code = dict(FIELD_CODE)
        for f, _ in fields:
            if f not in code:
                code[f] = 100 + len(code)

        def zl(items):
            return '[' + '; '.join(items) + ']'
        body = '(* fields initialised by reset(): %s *)\n' % ', '.join(f for f, _ in fields)
        body += 'Definition gen_uow_fields : list (Z * Z) := %s.\n' % zl('(%d, %d)' % (code[f], k) for f, k in fields)
        body += '(* fields captured by savepoint(): %s *)\n' % ', '.join(f for f, _ in saved)
        body += 'Definition gen_uow_saved : list (Z * Z) := %s.\n' % zl('(%d, %d)' % (code[f], h) for f, h in saved)
        body += '(* fields put back by rollback_to_savepoint(state): %s *)\n' % ', '.join(restored)
        body += 'Definition gen_uow_restored : list Z := %s.\n' % zl('%d' % code[f] for f in restored)
        text, err = HEADER + body, None
    except Unsupported as e:
        err = str(e)
        text = ('(* UowGen.v - the translator REFUSED the current source: %s *)\n'
                'Definition translator_refused : unit := the_source_left_the_supported_subset.\n') % err.replace('*)', '* )')
    os.makedirs(os.path.dirname(dst), exist_ok=True)
    old = open(dst).read() if os.path.exists(dst) else None
    if old != text:
        with open(dst, 'w') as f:
            f.write(text)
    return err
