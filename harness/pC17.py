"""C17 — a transaction's changed entities are exactly the versions it wrote."""
import corebase as B
import env as E
import hist

PROP = 'C17'
CHECK_MODS = list(B.CHECK_MODS) + ['Checks.C17chk']
CASE_TYPE = 'C17_case'
CORR, PROPCHK = 'C17c_corr', 'C17c_prop'
THEOREMS = ['C17_changed_entities_exact', 'C17_recorded_names', 'C17_one_entry_per_class',
            'C17_rows_iff_operations', 'C17_example']
RULE = ('histories over the blog shape (3 versioned classes + 1 non-versioned), a joined/single-table hierarchy and a shape with two versioned classes of the SAME __name__ in different modules (use_module_name), touching random subsets of the classes in '
        '1-4 flushes per transaction, with and without TransactionChangesPlugin; at every commit the transaction_changes '
        'rows are compared with the classes that have a version row stamped with each transaction id (none missing, none '
        'extra, one entry per class), and at the end Transaction.changed_entities of every record is compared with the '
        'version rows carrying its id - through the record object the application read between two flushes and still holds, where it did. Non-trivial: a transaction with >= 2 flushes touching >= 2 classes.')
ASSUMPTIONS = B.COMMON_ASSUMPTIONS + ['flat classes only (polymorphic queries would return subclass rows under the parent class too)']


def budget(tier):
    return 320 if tier == 'quick' else 4000


def gen_cases(rng, n, tier):
    # 'dup': two versioned classes with the same __name__ (different modules) - one recorded name, two classes
    cfgs = [c for c in B.all_cfgs('blog') + B.all_cfgs('inh')[::2] + [d for d in B.all_cfgs('dup') if d['changes']]
            # a class that overrides the names of its transaction columns (Tag: txid / valid_to)
            + B.all_cfgs('blog', dict(class_names=True))[::3]
            if not c['null_delete']]
    # flat shapes: Transaction.changed_entities is read for every record at the end of the run (a polymorphic query
    # of a hierarchy returns subclass versions under the parent class too: not compared there)
    cfgs = [dict(c, read_changed_entities=(c['shape'] != 'inh')) for c in cfgs]
    cases = B.gen_cases_default(rng, n, tier, cfgs=cfgs)
    for c in cases:
        # the application looks at the record of the running transaction between flushes (and keeps the object):
        # what it reads after the commit through that object has to be complete
        prog = []
        for op in c['prog']:
            prog.append(op)
            if op[0] == 'flush' and rng.random() < 0.35:
                prog.append(['readnames'])
        c['prog'] = prog
    # objects the flush itself deletes (delete-orphan behind a one-directional relationship): their class is changed too
    import pC07
    for i in range(max(10, n // 25)):
        cases.append(dict(kind='O', cfg=dict(shape='orphan', strategy='validity' if i % 2 else 'subquery', oneway=True),
                          prog=pC07.gen_orphan_prog(rng)))
    return cases


def _worker_O(chunk):
    """kind 'O': parent with delete-orphan children behind a one-directional relationship (pC07's orphan shape) and the
    TransactionChangesPlugin; after the run the recorded class names of every transaction are compared with the
    classes that have a version row carrying its id"""
    import sqlalchemy as sa
    import pC07
    from sqlalchemy_continuum.plugins import TransactionChangesPlugin
    cfg, items = chunk
    out = []
    for idx, case in items:
        problem = None
        try:
            with E.Env(options=hist.options_for(cfg), plugins=[TransactionChangesPlugin()], build=pC07.build_orphan(cfg)) as env:
                outcomes, _live = pC07._run_orphan(env, case['prog'])
                if any(o.startswith('error') for o in outcomes):
                    problem = 'the program failed: %r' % outcomes
                conn = env.connection
                names = {}
                chg = env.Base.metadata.tables['transaction_changes']
                for r in conn.execute(sa.select(chg.c.transaction_id, chg.c.entity_name)):
                    names.setdefault(r[0], set()).add(r[1])
                written = {}
                for cls in env.classes:
                    vt = env.version_class(cls).__table__
                    for r in conn.execute(sa.select(vt.c.transaction_id).distinct()):
                        written.setdefault(r[0], set()).add(cls.__name__)
                conn.rollback()
                for tx in sorted(set(names) | set(written)):
                    if names.get(tx, set()) != written.get(tx, set()) and problem is None:
                        problem = 'transaction %s: recorded names %r, classes with a version row %r' % (
                            tx, sorted(names.get(tx, set())), sorted(written.get(tx, set())))
        except Exception as e:
            problem = '%s: %s' % (type(e).__name__, str(e)[:200])
        out.append((idx, dict(kind='O', trace=[], snaps=[], ccfg=[], outcomes=[], changed_entities=None, exc=problem)))
    return out


def run_impl(cases):
    res = [None] * len(cases)
    hs = [(i, c) for i, c in enumerate(cases) if c.get('kind') != 'O']
    for (i, _), o in zip(hs, hist.run_impl([c for _, c in hs])):
        res[i] = o
    os_ = [(i, c) for i, c in enumerate(cases) if c.get('kind') == 'O']
    chunks = [(c['cfg'], [(i, c)]) for i, c in os_]
    for part in E.pmap(_worker_O, chunks):
        for idx, o in part:
            res[idx] = o
    return res


def encode(case, obs):
    if case.get('kind') == 'O':
        return '(C17_O %s)' % hist.encode_case(case, dict(obs, trace=[], snaps=[], ccfg=[]))
    return '(%s %s)' % ('C17_O' if case.get('obs_only') else 'C17_H', B.encode(case, obs))


def classify_guard(case):
    return case.get('kind') != 'O'


def classify(case, obs):
    if case.get('kind') == 'O':
        return None
    """Open finding F-C17-class-change-drops-child-part: within one transaction a joined-table child (class 1 of the inh
    shape) is deleted and flushed and its key is added again as a class without the child table."""
    if not case.get('obs_only') or case['cfg'].get('shape') != 'inh':
        return None
    import json
    deleted, flushed = {}, set()
    for op in case['prog']:
        if op[0] in ('commit', 'rollback'):
            deleted, flushed = {}, set()
        elif op[0] in ('del', 'delbase') and op[1] == 1:
            deleted[json.dumps(op[2])] = op[1]
        elif op[0] == 'flush':
            flushed |= set(deleted)
        elif op[0] == 'add' and op[1] != 1 and json.dumps(op[2]) in flushed:
            return 'F-C17-class-change-drops-child-part'
    return None




def shrink(case):
    if case.get('kind') == 'O':
        return []
    out = B.shrink(case)
    for c in out:
        if case.get('obs_only'):
            c['obs_only'] = True
    return out


def corpus():
    cfg = dict(shape='blog', strategy='validity', changes=True, tracker=False, null_delete=False, autoflush=False,
               read_changed_entities=True)
    inh = dict(shape='inh', strategy='validity', changes=True, tracker=False, null_delete=False, autoflush=False, twin=False)
    return [
        # a key that comes back as ANOTHER class of its hierarchy within one transaction (judged on the observations
        # only: Layer B does not express a class change): both class names have to be recorded
        dict(cfg=inh, obs_only=True,
             prog=[['add', 0, 1, {'a': 1}], ['add', 0, 2, {'a': 1}], ['commit'], ['del', 0, 1], ['flush'],
                   ['add', 1, 1, {'a': 2, 'pages': 3}], ['set', 0, 2, {'a': 2}], ['commit']]),
        dict(cfg=dict(inh, strategy='subquery'), obs_only=True,
             prog=[['add', 1, 1, {'a': 1, 'pages': 1}], ['add', 0, 2, {'a': 1}], ['commit'], ['del', 1, 1], ['flush'],
                   ['add', 0, 1, {'a': 2}], ['set', 0, 2, {'a': 2}], ['commit']]),dict(cfg=cfg, prog=[['add', 0, 1, {'a': 1}], ['commit'], ['set', 0, 1, {'a': 2}], ['flush'], ['readnames'],
                                ['add', 1, 1, {'a': 0}], ['flush'], ['add', 2, 1, {'a': 0}], ['commit']])]


def nontrivial(case, obs):
    classes, flushes = set(), 0
    for ev in obs.get('trace', []):
        if ev['ev'] in ('commit', 'rollback'):
            if flushes >= 2 and len(classes) >= 2:
                return True
            classes, flushes = set(), 0
        elif ev['ev'] == 'flush' and ev['ents']:
            flushes += 1
            classes |= set(e['cls'] for e in ev['ents'])
    return False


def features(case, obs):
    if case.get('kind') == 'O':
        return ['kind=orphan-oneway', 'strategy=' + case['cfg']['strategy']]
    return B.features_counted(case, obs)


def describe(case, obs):
    if case.get('kind') == 'O':
        return dict(cfg=case['cfg'], program=case['prog'], problem=obs.get('exc'))
    return B.describe_short(case, obs)

classify_corr = B.classify_corr
