"""C17 — a transaction's changed entities are exactly the versions it wrote."""
import corebase as B
from corebase import CHECK_MODS, CASE_TYPE, CORR, run_impl, encode, shrink  # noqa: F401

PROP = 'C17'
PROPCHK = 'C17_prop'
THEOREMS = ['C17_changed_entities_exact', 'C17_recorded_names', 'C17_one_entry_per_class',
            'C17_rows_iff_operations', 'C17_example']
RULE = ('histories over the blog shape (3 versioned classes + 1 non-versioned), a joined/single-table hierarchy and a shape with two versioned classes of the SAME __name__ in different modules (use_module_name), touching random subsets of the classes in '
        '1-4 flushes per transaction, with and without TransactionChangesPlugin; at every commit the transaction_changes '
        'rows are compared with the classes that have a version row stamped with each transaction id (none missing, none '
        'extra, one entry per class), and at the end Transaction.changed_entities of every record is compared with the '
        'version rows carrying its id. Non-trivial: a transaction with >= 2 flushes touching >= 2 classes.')
ASSUMPTIONS = B.COMMON_ASSUMPTIONS + ['flat classes only (polymorphic queries would return subclass rows under the parent class too)']


def budget(tier):
    return 320 if tier == 'quick' else 4000


def gen_cases(rng, n, tier):
    # 'dup': two versioned classes with the same __name__ (different modules) - one recorded name, two classes
    cfgs = [c for c in B.all_cfgs('blog') + B.all_cfgs('inh')[::2] + [d for d in B.all_cfgs('dup') if d['changes']]
            if not c['null_delete']]
    # flat shapes: Transaction.changed_entities is read for every record at the end of the run (a polymorphic query
    # of a hierarchy returns subclass versions under the parent class too: not compared there)
    cfgs = [dict(c, read_changed_entities=(c['shape'] != 'inh')) for c in cfgs]
    return B.gen_cases_default(rng, n, tier, cfgs=cfgs)


def nontrivial(case, obs):
    classes, flushes = set(), 0
    for ev in obs.get('trace', []):
        if ev['ev'] in ('commit', 'rollback'):
            if flushes >= 2 and len(classes) >= 2:
                return True
            classes, flushes = set(), 0
        elif ev['ev'] == 'flush' and ev['ents']:
            flushes += 1
            classes |= set(e['cls'] for e in ev['ents'])
    return False


features = B.features_counted
describe = B.describe_short

classify_corr = B.classify_corr
