"""C17 — a transaction's changed entities are exactly the versions it wrote."""
import corebase as B
from corebase import run_impl  # noqa: F401

PROP = 'C17'
CHECK_MODS = list(B.CHECK_MODS) + ['Checks.C17chk']
CASE_TYPE = 'C17_case'
CORR, PROPCHK = 'C17c_corr', 'C17c_prop'
THEOREMS = ['C17_changed_entities_exact', 'C17_recorded_names', 'C17_one_entry_per_class',
            'C17_rows_iff_operations', 'C17_example']
RULE = ('histories over the blog shape (3 versioned classes + 1 non-versioned), a joined/single-table hierarchy and a shape with two versioned classes of the SAME __name__ in different modules (use_module_name), touching random subsets of the classes in '
        '1-4 flushes per transaction, with and without TransactionChangesPlugin; at every commit the transaction_changes '
        'rows are compared with the classes that have a version row stamped with each transaction id (none missing, none '
        'extra, one entry per class), and at the end Transaction.changed_entities of every record is compared with the '
        'version rows carrying its id - through the record object the application read between two flushes and still holds, where it did. Non-trivial: a transaction with >= 2 flushes touching >= 2 classes.')
ASSUMPTIONS = B.COMMON_ASSUMPTIONS + ['flat classes only (polymorphic queries would return subclass rows under the parent class too)']


def budget(tier):
    return 320 if tier == 'quick' else 4000


def gen_cases(rng, n, tier):
    # 'dup': two versioned classes with the same __name__ (different modules) - one recorded name, two classes
    cfgs = [c for c in B.all_cfgs('blog') + B.all_cfgs('inh')[::2] + [d for d in B.all_cfgs('dup') if d['changes']]
            # a class that overrides the names of its transaction columns (Tag: txid / valid_to)
            + B.all_cfgs('blog', dict(class_names=True))[::3]
            if not c['null_delete']]
    # flat shapes: Transaction.changed_entities is read for every record at the end of the run (a polymorphic query
    # of a hierarchy returns subclass versions under the parent class too: not compared there)
    cfgs = [dict(c, read_changed_entities=(c['shape'] != 'inh')) for c in cfgs]
    cases = B.gen_cases_default(rng, n, tier, cfgs=cfgs)
    for c in cases:
        # the application looks at the record of the running transaction between flushes (and keeps the object):
        # what it reads after the commit through that object has to be complete
        prog = []
        for op in c['prog']:
            prog.append(op)
            if op[0] == 'flush' and rng.random() < 0.35:
                prog.append(['readnames'])
        c['prog'] = prog
    return cases


def encode(case, obs):
    return '(%s %s)' % ('C17_O' if case.get('obs_only') else 'C17_H', B.encode(case, obs))


def classify(case, obs):
    """Open finding F-C17-class-change-drops-child-part: within one transaction a joined-table child (class 1 of the inh
    shape) is deleted and flushed and its key is added again as a class without the child table."""
    if not case.get('obs_only') or case['cfg'].get('shape') != 'inh':
        return None
    import json
    deleted, flushed = {}, set()
    for op in case['prog']:
        if op[0] in ('commit', 'rollback'):
            deleted, flushed = {}, set()
        elif op[0] in ('del', 'delbase') and op[1] == 1:
            deleted[json.dumps(op[2])] = op[1]
        elif op[0] == 'flush':
            flushed |= set(deleted)
        elif op[0] == 'add' and op[1] != 1 and json.dumps(op[2]) in flushed:
            return 'F-C17-class-change-drops-child-part'
    return None




def shrink(case):
    out = B.shrink(case)
    for c in out:
        if case.get('obs_only'):
            c['obs_only'] = True
    return out


def corpus():
    cfg = dict(shape='blog', strategy='validity', changes=True, tracker=False, null_delete=False, autoflush=False,
               read_changed_entities=True)
    inh = dict(shape='inh', strategy='validity', changes=True, tracker=False, null_delete=False, autoflush=False, twin=False)
    return [
        # a key that comes back as ANOTHER class of its hierarchy within one transaction (judged on the observations
        # only: Layer B does not express a class change): both class names have to be recorded
        dict(cfg=inh, obs_only=True,
             prog=[['add', 0, 1, {'a': 1}], ['add', 0, 2, {'a': 1}], ['commit'], ['del', 0, 1], ['flush'],
                   ['add', 1, 1, {'a': 2, 'pages': 3}], ['set', 0, 2, {'a': 2}], ['commit']]),
        dict(cfg=dict(inh, strategy='subquery'), obs_only=True,
             prog=[['add', 1, 1, {'a': 1, 'pages': 1}], ['add', 0, 2, {'a': 1}], ['commit'], ['del', 1, 1], ['flush'],
                   ['add', 0, 1, {'a': 2}], ['set', 0, 2, {'a': 2}], ['commit']]),dict(cfg=cfg, prog=[['add', 0, 1, {'a': 1}], ['commit'], ['set', 0, 1, {'a': 2}], ['flush'], ['readnames'],
                                ['add', 1, 1, {'a': 0}], ['flush'], ['add', 2, 1, {'a': 0}], ['commit']])]


def nontrivial(case, obs):
    classes, flushes = set(), 0
    for ev in obs.get('trace', []):
        if ev['ev'] in ('commit', 'rollback'):
            if flushes >= 2 and len(classes) >= 2:
                return True
            classes, flushes = set(), 0
        elif ev['ev'] == 'flush' and ev['ents']:
            flushes += 1
            classes |= set(e['cls'] for e in ev['ents'])
    return False


features = B.features_counted
describe = B.describe_short

classify_corr = B.classify_corr
