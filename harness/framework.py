"""Generic driver of one property check (DESIGN §5, §6).

A property module (harness/pCxx.py) provides

    PROP         'C08'
    CHECK_MODS   Coq modules to import in the generated cases files
    CASE_TYPE    name of the Gallina case record
    CORR, PROPCHK, PRE   names of the Gallina predicates  case -> bool
    THEOREMS     names of the theorems in Props/<PROP>.v that decide the property
    RULE         text: how cases are generated and what makes one non-trivial
    budget(tier) -> int                       number of generated cases
    gen_cases(rng, n, tier) -> [case]         python values (json-able)
    run_impl(cases) -> [obs]                  executes the real code (may use worker processes)
    encode(case, obs) -> str                  Gallina term of type CASE_TYPE
    nontrivial(case, obs) -> bool
    shrink(case) -> [case]                    smaller candidate cases (optional)
    classify(case, obs) -> finding-id or None (optional; matches open known findings)
    describe(case, obs) -> json-able          for samples / replays

The driver builds the Coq development, re-checks the property file (Print
Assumptions), runs the correspondence shards with vm_compute inside coqc and
applies the verdict rule.
"""
import hashlib
import json
import os
import random
import re
import shutil
import subprocess
import sys
import tempfile
import time

VERIF = os.path.dirname(os.path.dirname(os.path.abspath(__file__)))
COQ = os.path.join(VERIF, 'coq')
REPO = os.environ.get('VERIF_REPO', '/repo')
SHARD = 250

FORBIDDEN = re.compile(
    r'\b(Admitted|admit|Axiom|Axioms|Parameter|Parameters|Conjecture|Conjectures|'
    r'Hypothesis|Hypotheses|Variable|Variables|bypass_check|native_compute)\b|'
    r'Unset\s+Guard|Unset\s+Positivity|Unset\s+Universe|type-in-type|impredicative-set|Admit\s+Obligations')

TRUSTED_BASE = [
    'Coq 8.16.1 kernel incl. its vm_compute machine (no native_compute)',
    'axioms: none declared; Print Assumptions output of every property theorem is recorded under coverage.assumptions',
    'statements in coq/Props/<id>.v and the decidable predicates in coq/Checks/<id>chk.v',
    'correspondence harness (generators, SQLAlchemy drivers, canonicaliser, Gallina literal encoder) in harness/',
    'CPython 3.12, SQLAlchemy 2.0.21, SQLAlchemy-Utils 0.42.1, SQLite (database and ORM semantics are environment, exercised not proved)',
    'agreement of model and code is established on the generated inputs only (sampling)',
]


def log(*a):
    print(*a, file=sys.stderr, flush=True)


# ---------------------------------------------------------------- Gallina literals
def gZ(n):
    return '(%d)' % n


def gnat(n):
    return '(%d)%%nat' % n


def gbool(b):
    return 'true' if b else 'false'


def gopt(x, f=gZ):
    return 'None' if x is None else '(Some %s)' % f(x)


def glist(xs, f=gZ):
    return '[' + '; '.join(f(x) for x in xs) + ']'


def gpair(a, b):
    return '(%s, %s)' % (a, b)


def gstr(s):
    """Python str -> Gallina `list Z` of code points (strings are data, not syntax)."""
    return glist([ord(ch) for ch in s])


# ---------------------------------------------------------------- Coq build / run
def sh(cmd, timeout=1800, cwd=None, env=None):
    p = subprocess.run(cmd, shell=True, cwd=cwd, env=env, timeout=timeout,
                       stdout=subprocess.PIPE, stderr=subprocess.STDOUT, text=True)
    return p.returncode, p.stdout


def coq_sources():
    out = []
    for sub in ('Model', 'Gen', 'Proofs', 'Checks', 'Props'):
        d = os.path.join(COQ, sub)
        if os.path.isdir(d):
            for f in sorted(os.listdir(d)):
                if f.endswith('.v'):
                    out.append(os.path.join(sub, f))
    return out


def forbidden_scan():
    hits = []
    for rel in coq_sources():
        txt = open(os.path.join(COQ, rel)).read()
        # strip comments (non-nested is enough for our sources; nested handled by loop)
        prev = None
        while prev != txt:
            prev = txt
            txt = re.sub(r'\(\*[^*(]*(?:\*(?!\))[^*(]*|\((?!\*)[^*(]*)*\*\)', ' ', txt)
        in_section = 0
        for ln, line in enumerate(txt.split('\n'), 1):
            if re.match(r'\s*Section\b', line):
                in_section += 1
            if re.match(r'\s*End\b', line) and in_section:
                in_section -= 1
            for m in FORBIDDEN.finditer(line):
                w = m.group(0)
                if w.split()[0] in ('Variable', 'Variables', 'Hypothesis', 'Hypotheses') and in_section:
                    continue
                hits.append('%s:%d:%s' % (rel, ln, w))
    return hits


def build_coq():
    """Full .vo build of the development (serialised with a file lock). Gen/*.v is first regenerated from the CURRENT
    source of the repository by the translators (harness/pytrans*.py). Returns the tail of the build log."""
    import fcntl
    gen = os.path.join(os.path.dirname(os.path.abspath(__file__)), 'pytrans.py')
    with open(os.path.join(COQ, '.buildlock'), 'w') as lock:
        fcntl.flock(lock, fcntl.LOCK_EX)
        try:
            rc0, gen_out = sh('cd %s && VERIF_REPO=%s python3 %s 2>&1' % (COQ, REPO, gen), timeout=300)
            cmd = ('cd %s && coq_makefile -f _CoqProject %s -o Makefile >/dev/null && '
                   'timeout 1500 make -j16 -k 2>&1 | tail -40' % (COQ, ' '.join(coq_sources())))
            rc, out = sh(cmd, timeout=1700)
            invalidate_stale()
        finally:
            fcntl.flock(lock, fcntl.LOCK_UN)
    return (gen_out or '') + out


def invalidate_stale():
    """A file that no longer compiles keeps the .vo of its last successful compilation, and so does everything that
    depends on it: remove the compiled form of every source that is not up to date and of everything that
    (transitively) requires it, so that a broken obligation can never be discharged from a stale object file."""
    srcs = coq_sources()
    deps = {}
    for rel in srcs:
        mod = rel[:-2].replace('/', '.')
        txt = open(os.path.join(COQ, rel)).read()
        req = set()
        for m in re.finditer(r'From\s+Continuum\s+Require\s+(?:Import|Export)\s+([^.]*(?:\.[A-Za-z][^.\s]*)*?)\.\s', txt + ' '):
            pass
        for stmt in re.findall(r'From\s+Continuum\s+Require\s+(?:Import|Export)\s+(.*?)\.\s*\n', txt, re.S):
            for name in stmt.split():
                req.add(name.strip())
        deps[mod] = req
    stale = set()
    for rel in srcs:
        if not vo_fresh(rel):
            stale.add(rel[:-2].replace('/', '.'))
    changed = True
    while changed:
        changed = False
        for mod, req in deps.items():
            if mod not in stale and req & stale:
                stale.add(mod)
                changed = True
    for mod in stale:
        base = os.path.join(COQ, mod.replace('.', '/'))
        for ext in ('.vo', '.vok', '.vos', '.glob'):
            try:
                os.remove(base + ext)
            except OSError:
                pass
    return stale


def vo_exists(rel):
    return os.path.exists(os.path.join(COQ, rel[:-2] + '.vo'))


def vo_fresh(rel):
    v = os.path.join(COQ, rel)
    vo = v[:-2] + '.vo'
    return os.path.exists(vo) and os.path.getmtime(vo) >= os.path.getmtime(v)


def check_props_file(prop, scratch):
    """Recompile Props/<prop>.v into scratch and return (ok, {theorem: assumptions}, raw)."""
    src = os.path.join(COQ, 'Props', prop + '.v')
    dst = os.path.join(scratch, prop + '_props.v')
    shutil.copy(src, dst)
    rc, out = sh('timeout 600 coqc -R %s Continuum -w -notation-overridden %s' % (COQ, dst), cwd=scratch)
    txt = open(src).read()
    names = re.findall(r'^\s*Print Assumptions\s+([A-Za-z0-9_\']+)\s*\.', txt, re.M)
    blocks = []
    cur = None
    for line in out.split('\n'):
        if line.startswith('Closed under the global context'):
            blocks.append('closed')
            cur = None
        elif line.startswith('Axioms:'):
            cur = []
            blocks.append(cur)
        elif cur is not None and line.strip():
            cur.append(line.strip())
    assum = {}
    for i, n in enumerate(names):
        if i < len(blocks):
            b = blocks[i]
            assum[n] = 'Closed under the global context' if b == 'closed' else 'Axioms: ' + ' | '.join(b)
        else:
            assum[n] = 'MISSING'
    return rc == 0, assum, out


def run_shards(mod, terms, scratch, tag='cases', preds=None):
    """Evaluate CORR / PROPCHK / PRE on every encoded case inside coqc (vm_compute).
    Returns (bad_corr, bad_prop, vacuous, errors) as lists of case indices."""
    files = []
    for s in range(0, len(terms), SHARD):
        chunk = terms[s:s + SHARD]
        name = '%s_%d' % (tag, s // SHARD)
        path = os.path.join(scratch, name + '.v')
        with open(path, 'w') as f:
            f.write('From Continuum Require Import Model.Base.\n')
            for m in mod.CHECK_MODS:
                f.write('From Continuum Require Import %s.\n' % m)
            f.write('Open Scope Z_scope.\n')
            f.write('Definition cases : list %s := [\n' % mod.CASE_TYPE)
            f.write(';\n'.join(chunk))
            f.write('\n].\n')
            pre = getattr(mod, 'PRE', None)
            if preds is None:
                f.write('Eval vm_compute in (bad_cases %s cases, bad_cases %s cases, %s).\n' % (
                    mod.CORR, mod.PROPCHK,
                    ('bad_cases %s cases' % pre) if pre else '(@nil nat)'))
            else:
                ps = (list(preds) + [preds[-1]] * 3)[:3]
                f.write('Eval vm_compute in (bad_cases %s cases, bad_cases %s cases, bad_cases %s cases).\n' % tuple(ps))
        files.append((s, name, path))
    listing = os.path.join(scratch, tag + '_files.txt')
    with open(listing, 'w') as f:
        for _, name, path in files:
            f.write(path + '\n')
    cmd = ("cat %s | xargs -P16 -I{} sh -c 'ulimit -s unlimited 2>/dev/null; "
           "timeout 900 coqc -R %s Continuum -w -notation-overridden {} > {}.out 2>&1 || echo FAIL >> {}.out'"
           % (listing, COQ))
    sh(cmd, timeout=3600, cwd=scratch)
    bad_corr, bad_prop, vac, errors = [], [], [], []
    for s, name, path in files:
        out = open(path + '.out').read()
        m = re.search(r'=\s*\(\s*(\[[^\]]*\])\s*,\s*(\[[^\]]*\])\s*,\s*(\[[^\]]*\])\s*\)', out, re.S)
        if not m or 'FAIL' in out.split('\n')[-2:]:
            errors.append((name, out[-2000:]))
            continue
        for grp, dest in ((1, bad_corr), (2, bad_prop), (3, vac)):
            nums = re.findall(r'\d+', m.group(grp))
            dest.extend(s + int(x) for x in nums)
    return bad_corr, bad_prop, vac, errors


# ---------------------------------------------------------------- known findings
def load_known():
    p = os.path.join(VERIF, 'known_findings.json')
    if not os.path.exists(p):
        return []
    return json.load(open(p)).get('findings', [])


def canon_hash(x):
    return hashlib.sha1(json.dumps(x, sort_keys=True, default=str).encode()).hexdigest()


# ---------------------------------------------------------------- main driver
def write_replay(prop, payload):
    d = os.path.join(VERIF, 'replays')
    os.makedirs(d, exist_ok=True)
    path = os.path.join(d, '%s_%s.json' % (prop, canon_hash(payload)[:10]))
    with open(path, 'w') as f:
        json.dump(payload, f, indent=1, default=str)
    return path


def evaluate(mod, cases, scratch, tag):
    """Run impl + Coq predicates on cases; returns dict with observations and index lists."""
    obs = mod.run_impl(cases)
    terms = [mod.encode(c, o) for c, o in zip(cases, obs)]
    bad_corr, bad_prop, vac, errors = run_shards(mod, terms, scratch, tag)
    return dict(obs=obs, bad_corr=set(bad_corr), bad_prop=set(bad_prop), vac=set(vac), errors=errors)


def shrink_failure(mod, case, scratch, which='bad_prop', rounds=6, pred=None):
    """Greedy shrinking: keep any smaller candidate that still fails (pred: the predicate that
    must keep failing; default the strict property predicate)."""
    if not hasattr(mod, 'shrink'):
        return case
    cur = case
    for r in range(rounds):
        cands = mod.shrink(cur)
        if not cands:
            break
        cands = cands[:200]
        if pred is None:
            ev = evaluate(mod, cands, scratch, 'shrink%d' % r)
        else:
            obs = mod.run_impl(cands)
            terms = [mod.encode(c, o) for c, o in zip(cands, obs)]
            b1, _, _, errs = run_shards(mod, terms, scratch, 'shrink%d' % r, preds=[pred])
            ev = dict(errors=errs, vac=set())
            ev[which] = set(b1)
        if ev['errors']:
            break
        failing = sorted(i for i in ev[which] if i not in ev['vac'])
        if not failing:
            break
        cur = cands[failing[0]]
    return cur


def run_property(mod, tier, seed, replay=None):
    t0 = time.time()
    prop = mod.PROP
    known = [k for k in load_known() if k['property'] == prop or prop in k.get('also', [])]
    open_known = {k['id']: k for k in known if k.get('status') == 'open'}
    scratch = tempfile.mkdtemp(prefix='verif_%s_' % prop)
    violations = []     # (replay path, suffix)
    known_hits = {}
    proof_problems = []
    try:
        # ---- (P) proof side
        blog = build_coq()
        needed = ['Props/%s.v' % prop] + ['%s.v' % m.replace('.', '/') for m in mod.CHECK_MODS]
        for rel in needed:
            if not vo_fresh(rel):
                proof_problems.append('build: %s did not compile\n%s' % (rel, blog[-1500:]))
        hits = forbidden_scan()
        if hits:
            proof_problems.append('forbidden constructs: ' + ', '.join(hits[:10]))
        ok, assum, raw = check_props_file(prop, scratch)
        if not ok:
            proof_problems.append('Props/%s.v does not check: %s' % (prop, raw[-1500:]))
        for th in mod.THEOREMS:
            a = assum.get(th, 'MISSING')
            allowed = getattr(mod, 'ALLOWED_AXIOMS', ())
            if a == 'MISSING':
                proof_problems.append('theorem %s: no Print Assumptions output' % th)
            elif a != 'Closed under the global context':
                axs = [x.split(':')[0].strip() for x in a[len('Axioms: '):].split(' | ') if ':' in x]
                extra = [x for x in axs if x not in allowed]
                if extra:
                    proof_problems.append('theorem %s depends on unexpected axioms %s' % (th, extra))
        obligations = len(assum)
        discharged = sum(1 for th, a in assum.items() if a != 'MISSING') if ok else 0

        # ---- (T) correspondence
        rng = random.Random(seed * 1000003 + int(hashlib.sha1(prop.encode()).hexdigest()[:6], 16))
        if replay:
            payload = json.load(open(replay))
            cases = [payload['case']] if 'case' in payload else []
            corpus_n = 0
        else:
            corpus = mod.corpus() if hasattr(mod, 'corpus') else []
            corpus_n = len(corpus)
            n = mod.budget(tier)
            cases = corpus + mod.gen_cases(rng, n, tier)
        searched_extra = False
        ev = evaluate(mod, cases, scratch, 'cases') if cases else dict(obs=[], bad_corr=set(), bad_prop=set(), vac=set(), errors=[])
        shard_files = (len(cases) + SHARD - 1) // SHARD
        if ev['errors']:
            proof_problems.append('correspondence shards failed to evaluate: %s' % (ev['errors'][0],))

        def relaxed_attribution(cases, ev, failing):
            """For the failing cases, evaluate the relaxed predicates (one per open finding, and all
            together). Returns {case index: [finding ids]} for cases explained by open findings."""
            relax = [(f, p) for f, p in getattr(mod, 'RELAX', []) if f in open_known]
            if not relax or not failing:
                return {}
            sub = [failing[j] for j in range(len(failing))]
            terms = [mod.encode(cases[i], ev['obs'][i]) for i in sub]
            out = {}
            allp = mod.RELAX_ALL if len(relax) == len(getattr(mod, 'RELAX', [])) else None
            singles = {}
            for f, p in relax:
                b1, _, _, errs = run_shards(mod, terms, scratch, 'relax_' + p, preds=[p])
                if errs:
                    return {}
                singles[f] = set(b1)
            ball = None
            if allp:
                b1, _, _, errs = run_shards(mod, terms, scratch, 'relax_all', preds=[allp])
                ball = set(b1) if not errs else None
            guard = getattr(mod, 'relax_guard', None)
            for j, i in enumerate(sub):
                fs = [f for f, _ in relax if j not in singles[f]]
                if guard is not None:
                    # the finding's trigger pattern must be present in the case as well
                    fs = [f for f in fs if guard(cases[i], ev['obs'][i], f)]
                    if not fs and not all(guard(cases[i], ev['obs'][i], f) for f, _ in relax):
                        continue
                if fs:
                    out[i] = fs
                elif ball is not None and j not in ball:
                    out[i] = [f for f, _ in relax]
            return out

        def handle_failures(cases, ev, origin):
            failing = [i for i in sorted(ev['bad_prop']) if i not in ev['vac']]
            explained = relaxed_attribution(cases, ev, failing)
            for i in failing:
                if i in explained:
                    for fid in explained[i]:
                        known_hits.setdefault(fid, (cases[i], ev['obs'][i]))
                    continue
                fid = mod.classify(cases[i], ev['obs'][i]) if hasattr(mod, 'classify') else None
                if fid in open_known:
                    known_hits.setdefault(fid, (cases[i], ev['obs'][i]))
                    continue
                relaxed_pred = getattr(mod, 'RELAX_ALL', None) if any(
                    f in open_known for f, _ in getattr(mod, 'RELAX', [])) else None
                small = cases[i] if replay else shrink_failure(mod, cases[i], scratch, pred=relaxed_pred)
                sobs = mod.run_impl([small])[0]
                path = write_replay(prop, dict(
                    property=prop, kind='property-fails-on-implementation', origin=origin,
                    seed=seed, tier=tier, case=small,
                    impl_observation=mod.describe(small, sobs) if hasattr(mod, 'describe') else sobs,
                    original_case=cases[i]))
                violations.append((path, ''))
                break   # one replay per run is enough

        handle_failures(cases, ev, 'generated')
        corr_only = sorted(i for i in ev['bad_corr'] if i not in ev['bad_prop'] and i not in ev['vac'])
        # a correspondence break that is explained by an open finding (the environment assumption the
        # model relies on is exactly what the finding says the real environment violates) is not an alarm
        cc = getattr(mod, 'classify_corr', None) or getattr(mod, 'classify', None)
        if cc is not None:
            keep = []
            for i in corr_only:
                fid = cc(cases[i], ev['obs'][i])
                if fid in open_known:
                    known_hits.setdefault(fid, (cases[i], ev['obs'][i]))
                else:
                    keep.append(i)
            corr_only = keep
        need_search = (bool(proof_problems) or bool(corr_only)) and not violations and not replay
        search_eval = 0
        if need_search:
            # failure search: 5x budget with fresh seeds + shrinking around disagreeing inputs
            searched_extra = True
            extra = []
            for i in corr_only[:5]:
                if hasattr(mod, 'shrink'):
                    extra.extend(mod.shrink(cases[i])[:40])
            rng2 = random.Random(seed * 7919 + 17)
            extra.extend(mod.gen_cases(rng2, 5 * mod.budget(tier), tier))
            search_eval = len(extra)
            ev2 = evaluate(mod, extra, scratch, 'search')
            handle_failures(extra, ev2, 'failure-search')
            if not violations:
                what = proof_problems[:] + (
                    ['correspondence %s (model = implementation) fails on case %s'
                     % (mod.CORR, json.dumps(mod.describe(cases[corr_only[0]], ev['obs'][corr_only[0]])
                                             if hasattr(mod, 'describe') else cases[corr_only[0]], default=str)[:4000])]
                    if corr_only else [])
                path = write_replay(prop, dict(
                    property=prop, kind='no-longer-shown', seed=seed, tier=tier,
                    broken=what,
                    case=cases[corr_only[0]] if corr_only else None,
                    note='no input was found on which the property predicate fails on the implementation'))
                violations.append((path, ' no-failing-input-found'))

        # ---- evidence
        nontriv = set()
        dist = {}
        for c, o in zip(cases, ev['obs']):
            if mod.nontrivial(c, o):
                nontriv.add(canon_hash(c))
            if hasattr(mod, 'features'):
                for f in mod.features(c, o):
                    dist[f] = dist.get(f, 0) + 1
        samples = []
        for c, o in list(zip(cases, ev['obs']))[corpus_n:corpus_n + 2]:
            samples.append(mod.describe(c, o) if hasattr(mod, 'describe') else dict(case=c, obs=o))
        evidence = dict(
            property_id=prop, tier=tier, seed=seed, level='proof',
            coverage=dict(
                obligations=obligations + shard_files,
                discharged=discharged + (shard_files - len(ev['errors'])),
                checker_cmd='make -C coq (coqc 8.16.1, full .vo build) ; coqc Props/%s.v (Print Assumptions) ; coqc <scratch>/cases_*.v (vm_compute of %s / %s on every case)' % (prop, mod.CORR, mod.PROPCHK),
                trusted_base=TRUSTED_BASE + list(getattr(mod, 'EXTRA_TRUST', [])),
                theorems=mod.THEOREMS,
                assumptions=assum,
                evaluations=len(cases) + search_eval,
                distinct_nontrivial=len(nontriv),
                rule=mod.RULE,
                samples=samples,
                traces_validated_against_impl=len(cases) - len(ev['vac']),
                vacuous_cases=len(ev['vac']),
                correspondence_disagreements=len(ev['bad_corr']),
                property_failures=len([i for i in ev['bad_prop'] if i not in ev['vac']]),
                input_distribution=dist,
                corpus_cases=corpus_n,
                failure_search_ran=searched_extra,
                known_findings_hit=sorted(known_hits),
                proof_problems=proof_problems,
            ),
            assumptions=list(getattr(mod, 'ASSUMPTIONS', [])),
            wall_s=round(time.time() - t0, 2),
            violations=len(violations),
        )
        os.makedirs(os.path.join(VERIF, 'evidence'), exist_ok=True)
        with open(os.path.join(VERIF, 'evidence', prop + '.json'), 'w') as f:
            json.dump(evidence, f, indent=1, default=str)

        for fid in sorted(known_hits):
            print('KNOWN-FINDING: property=%s %s' % (prop, open_known[fid]['what']))
        # open findings that this run did not happen to hit are still listed (they are known)
        for fid, k in sorted(open_known.items()):
            if fid not in known_hits:
                print('KNOWN-FINDING: property=%s %s (not re-triggered by this run\'s inputs)' % (prop, k['what']))
        for path, suffix in violations:
            print('VIOLATION property=%s replay=%s%s' % (prop, path, suffix))
        log('[%s] tier=%s seed=%d cases=%d nontrivial=%d corr_bad=%d prop_bad=%d vac=%d wall=%.1fs'
            % (prop, tier, seed, len(cases), len(nontriv), len(ev['bad_corr'] - ev['vac']), len(ev['bad_prop'] - ev['vac']),
               len(ev['vac']), time.time() - t0))
        return 1 if violations else 0
    finally:
        shutil.rmtree(scratch, ignore_errors=True)
