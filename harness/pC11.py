"""C11 — flushes inside one transaction coalesce into one version per entity."""
import itertools

import corebase as B
from corebase import run_impl  # noqa: F401

PROP = 'C11'
CHECK_MODS = list(B.CHECK_MODS) + ['Checks.C11chk']
CASE_TYPE = 'C11_case'
CORR, PROPCHK = 'C11c_corr', 'C11c_prop'
RELAX = [('F-C01-row-switch', 'C11c_prop_switch')]
RELAX_ALL = 'C11c_prop_switch'


def encode(case, obs):
    return '(%s %s)' % ('C11_O' if case.get('obs_only') else 'C11_H', B.encode(case, obs))


def shrink(case):
    out = B.shrink(case)
    for c in out:
        if case.get('obs_only'):
            c['obs_only'] = True
    return out


def corpus():
    inh = dict(shape='inh', strategy='validity', changes=False, tracker=False, null_delete=False, autoflush=False, twin=False)
    # a key of a single-table hierarchy that changes class within one transaction (subclass -> base, base -> subclass):
    # one row for the (table, key) entity, operation UPDATE, holding the state of the last flushed change - and no
    # value in a column the row's class does not have
    return [dict(cfg=c, obs_only=True, prog=p_)
            for c in (inh, dict(inh, strategy='subquery'))
            for p_ in ([['add', 2, 1, {'a': 1, 'tracks': 5}], ['add', 0, 2, {'a': 1}], ['commit'], ['del', 2, 1], ['flush'],
                        ['add', 0, 1, {'a': 2}], ['commit'], ['set', 0, 1, {'a': 3}], ['commit']],
                       [['add', 0, 1, {'a': 1}], ['commit'], ['del', 0, 1], ['flush'], ['add', 2, 1, {'a': 2, 'tracks': 7}],
                        ['commit']])]
THEOREMS = ['C11_at_most_one_row', 'C11_operation_type_coalesces', 'C11_other_entities_do_not_interfere', 'C11_insert_kind_is_the_code',
            'C11_delete_kind_is_the_code', 'C11_operation_constants_are_the_code', 'C11_example']
RULE = ('(enumerated) every sequence over {insert, update, delete, re-insert} of one key with every placement of flush '
        'points, up to length 4, inside a single transaction after a committed prefix (entity pre-existing or not), both '
        'strategies, tracker on/off - a finite family used as test inputs, the theorem is unbounded; plus (random) the '
        'general history generator with autoflush on/off. The real tables after every flush are compared with the model, '
        'and the predicate checks: one row per entity with a flushed change and none otherwise, operation type = coalesced '
        'kinds, row content = the live row at the commit, flags = OR over the flushes, chain closed. Non-trivial: >= 2 flushes touching the same entity in one '
        'transaction.')
ASSUMPTIONS = B.COMMON_ASSUMPTIONS


def budget(tier):
    return 200 if tier == 'quick' else 3000


def enumerated(tier):
    """insert/update/delete/re-insert sequences x flush placements for key 1 of Article."""
    out = []
    acts = ['ins', 'upd', 'del']
    maxlen = 3 if tier == 'quick' else 4
    cfgs = [dict(shape='blog', strategy=s, tracker=t) for s in ('validity', 'subquery') for t in (False, True)]
    n = 0
    for pre in (False, True):
        for ln in range(1, maxlen + 1):
            for seq in itertools.product(acts, repeat=ln):
                # validity of the sequence w.r.t. existence
                exists = pre
                ok = True
                for a in seq:
                    if a == 'ins':
                        if exists:
                            ok = False
                        exists = True
                    elif a == 'upd':
                        if not exists:
                            ok = False
                    else:
                        if not exists:
                            ok = False
                        exists = False
                if not ok:
                    continue
                for flushes in itertools.product([False, True], repeat=ln - 1):
                    prog = []
                    if pre:
                        prog += [['add', 0, 1, {'a': 0, 'b': 0}], ['add', 0, 2, {'a': 0}], ['commit']]
                    val = 1
                    for i, a in enumerate(seq):
                        if a == 'ins':
                            prog.append(['add', 0, 1, {'a': val}])
                        elif a == 'upd':
                            # after a (re-)insert the update touches the column the insert was given, so that the
                            # column it left unset stays unset; otherwise the other column
                            prog.append(['set', 0, 1, {('a' if i > 0 and seq[i - 1] == 'ins' else 'b'): val}])
                        else:
                            prog.append(['del', 0, 1])
                        val += 1
                        if i < ln - 1 and flushes[i]:
                            prog.append(['flush'])
                    prog.append(['commit'])
                    out.append(dict(cfg=cfgs[n % len(cfgs)], prog=prog))
                    n += 1
    return out


def gen_cases(rng, n, tier):
    cases = enumerated(tier)
    cfgs = [c for c in B.all_cfgs('blog') + B.all_cfgs('inh')[::2] if not c['null_delete']]
    return cases + B.gen_cases_default(rng, n, tier, cfgs=cfgs)


def nontrivial(case, obs):
    # two flush events inside one transaction touching the same entity
    seen = {}
    for ev in obs.get('trace', []):
        if ev['ev'] in ('commit', 'rollback'):
            seen = {}
        elif ev['ev'] == 'flush':
            for e in ev['ents']:
                k = (e['cls'], str(e['vals'][:1]))
                seen[k] = seen.get(k, 0) + 1
                if seen[k] >= 2:
                    return True
    return False


features = B.features_counted
describe = B.describe_short

classify_corr = B.classify_corr
