"""pytrans.py - fail-closed translator from a small, dictionary-manipulating subset of Python to Gallina.

It is run on every build (framework.build_coq and MANIFEST.setup_cmd) over the CURRENT source of /repo and
regenerates coq/Gen/ManagerGen.v:

  sqlalchemy_continuum/manager.py   VersioningManager.unit_of_work / clear / clear_connection /
                                    track_cloned_connections      -> gen_unit_of_work, gen_clear, ...
  sqlalchemy_continuum/operation.py Operation.INSERT/UPDATE/DELETE, Operations.add / add_insert / add_delete
                                                                  -> gen_OP_*, gen_add_insert, gen_add_delete

Proofs/ManagerGenP.v proves that the generated functions ARE the hand-written model functions
(Model/Manager.v register / clear / clear_connection / clone_track, Model/Core.v track's operation kinds).
A change of the source either changes the generated term (the proof no longer checks) or leaves the supported
subset (the translator refuses and emits a file that does not compile); both surface as a broken proof obligation
of the properties that import ManagerGenP (C06, C09, C11).

The state of the translated methods is the pair (U, M): U = self.units_of_work as an association list
connection -> unit of work, M = self.session_connection_map as session -> connection.  Objects are identified by
natural numbers; `connection.closed` and `connection.connection` (the DB-API connection) are the environment
functions `closed` and `dbapi` of Model/Manager.v.  Calls that only touch the discarded UnitOfWork object
(uow.reset(...)) and calls of self.forget_savepoints (checked not to mention the two maps) are skipped;
session.in_nested_transaction() is the boolean parameter `nested`.
"""
import ast
import os
import sys


class Unsupported(Exception):
    pass


def _src(node):
    try:
        return ast.unparse(node)
    except Exception:
        return '<node>'


def is_self_attr(node, name):
    return isinstance(node, ast.Attribute) and isinstance(node.value, ast.Name) and node.value.id == 'self' and node.attr == name


UMAP, SMAP = 'units_of_work', 'session_connection_map'
# methods of the manager that the translated methods may call and that are skipped: translate_manager checks that
# their bodies mention neither of the two maps
SKIPPED_SELF_CALLS = ('forget_savepoints',)


class Fn(object):
    """translation of one method body to a Gallina expression of type list (nat*uow) * list (nat*nat)"""

    def __init__(self, name, params):
        self.name = name
        self.locals = dict(params)          # python name -> ('nat' | 'uow', gallina expr)

    # ---- expressions
    def key(self, node):
        if isinstance(node, ast.Name) and node.id in self.locals and self.locals[node.id][0] == 'nat':
            return self.locals[node.id][1]
        raise Unsupported('%s: key expression %s' % (self.name, _src(node)))

    def uowval(self, node):
        if isinstance(node, ast.Name) and node.id in self.locals and self.locals[node.id][0] == 'uow':
            return self.locals[node.id][1]
        raise Unsupported('%s: unit-of-work expression %s' % (self.name, _src(node)))

    def test(self, node):
        if isinstance(node, ast.BoolOp):
            op = ' && ' if isinstance(node.op, ast.And) else ' || '
            return '(' + op.join(self.test(v) for v in node.values) + ')'
        if isinstance(node, ast.UnaryOp) and isinstance(node.op, ast.Not):
            return '(negb %s)' % self.test(node.operand)
        if isinstance(node, ast.Attribute) and node.attr == 'closed':
            return '(closed %s)' % self.key(node.value)
        if isinstance(node, ast.Call) and isinstance(node.func, ast.Attribute) and node.func.attr == 'in_nested_transaction' \
                and not node.args:
            self.key(node.func.value)
            return 'nested'
        if isinstance(node, ast.Compare) and len(node.ops) == 1:
            op, left, right = node.ops[0], node.left, node.comparators[0]
            if isinstance(op, (ast.In, ast.NotIn)):
                neg = isinstance(op, ast.NotIn)
                if is_self_attr(right, UMAP) or (isinstance(right, ast.Call) and isinstance(right.func, ast.Attribute)
                                                 and right.func.attr == 'keys' and is_self_attr(right.func.value, UMAP)):
                    e = '(mem U %s)' % self.key(left)
                elif isinstance(right, ast.Call) and isinstance(right.func, ast.Attribute) and right.func.attr == 'values' \
                        and is_self_attr(right.func.value, SMAP):
                    e = '(existsb (fun p => Nat.eqb (snd p) %s) M)' % self.key(left)
                else:
                    raise Unsupported('%s: membership test %s' % (self.name, _src(node)))
                return '(negb %s)' % e if neg else e
            if isinstance(op, (ast.Is, ast.IsNot)):
                neg = isinstance(op, ast.IsNot)
                if isinstance(left, ast.Attribute) and left.attr == 'connection' and \
                        isinstance(right, ast.Attribute) and right.attr == 'connection':
                    e = '(Nat.eqb (dbapi %s) (dbapi %s))' % (self.key(left.value), self.key(right.value))
                else:
                    e = '(Nat.eqb %s %s)' % (self.key(left), self.key(right))
                return '(negb %s)' % e if neg else e
        raise Unsupported('%s: condition %s' % (self.name, _src(node)))

    # ---- statements
    @staticmethod
    def returns(stmts):
        return bool(stmts) and isinstance(stmts[-1], ast.Return)

    def block(self, stmts):
        """Gallina expression for the statement list, evaluated in a context where U and M are bound"""
        if not stmts:
            return '(U, M)'
        s, rest = stmts[0], stmts[1:]
        if isinstance(s, ast.Expr) and isinstance(s.value, ast.Constant) and isinstance(s.value.value, str):
            return self.block(rest)                                   # docstring
        if isinstance(s, ast.Return):
            return '(U, M)'                                           # the returned object is not part of the maps
        if isinstance(s, ast.Expr) and isinstance(s.value, ast.Call) and isinstance(s.value.func, ast.Attribute) \
                and s.value.func.attr == 'reset' and isinstance(s.value.func.value, ast.Name) \
                and self.locals.get(s.value.func.value.id, ('', ''))[0] == 'uow':
            return self.block(rest)                                   # uow.reset(...): touches the discarded object only
        if isinstance(s, ast.Expr) and isinstance(s.value, ast.Call) and isinstance(s.value.func, ast.Attribute) \
                and isinstance(s.value.func.value, ast.Name) and s.value.func.value.id == 'self' \
                and s.value.func.attr in SKIPPED_SELF_CALLS:
            return self.block(rest)                                   # bookkeeping outside the two maps (checked below)
        if isinstance(s, ast.Assign) and len(s.targets) == 1:
            t, v = s.targets[0], s.value
            # conn = session.connection()
            if isinstance(t, ast.Name) and isinstance(v, ast.Call) and isinstance(v.func, ast.Attribute) \
                    and v.func.attr == 'connection' and not v.args and isinstance(v.func.value, ast.Name):
                self.key(v.func.value)
                self.locals[t.id] = ('nat', 'conn_of_session')
                return self.block(rest)
            # conn = self.session_connection_map.pop(session, None) ; if conn is None: return
            if isinstance(t, ast.Name) and isinstance(v, ast.Call) and isinstance(v.func, ast.Attribute) and v.func.attr == 'pop' \
                    and is_self_attr(v.func.value, SMAP) and len(v.args) == 2 and isinstance(v.args[1], ast.Constant) \
                    and v.args[1].value is None:
                k = self.key(v.args[0])
                if not (rest and isinstance(rest[0], ast.If) and not rest[0].orelse and len(rest[0].body) == 1
                        and isinstance(rest[0].body[0], ast.Return)
                        and isinstance(rest[0].test, ast.Compare) and isinstance(rest[0].test.ops[0], ast.Is)
                        and isinstance(rest[0].test.left, ast.Name) and rest[0].test.left.id == t.id
                        and isinstance(rest[0].test.comparators[0], ast.Constant)
                        and rest[0].test.comparators[0].value is None):
                    raise Unsupported('%s: pop(...) must be followed by `if %s is None: return`' % (self.name, t.id))
                self.locals[t.id] = ('nat', t.id)
                return ('(let popped := aget M %s in let M := adel M %s in\n   match popped with\n   | None => (U, M)\n'
                        '   | Some %s => %s\n   end)') % (k, k, t.id, self.block(rest[1:]))
            # uow = self.units_of_work[k]
            if isinstance(t, ast.Name) and isinstance(v, ast.Subscript) and is_self_attr(v.value, UMAP):
                k = self.key(v.slice)
                self.locals[t.id] = ('uow', '(match aget U %s with Some u => u | None => uow0 end)' % k)
                return self.block(rest)
            # uow = self.uow_class(self)
            if isinstance(t, ast.Name) and isinstance(v, ast.Call) and is_self_attr(v.func, 'uow_class'):
                self.locals[t.id] = ('uow', 'uow0')
                return self.block(rest)
            # self.units_of_work[k] = uow / self.session_connection_map[k] = conn
            if isinstance(t, ast.Subscript) and is_self_attr(t.value, UMAP):
                return '(let U := aset U %s %s in\n   %s)' % (self.key(t.slice), self.uowval(v), self.block(rest))
            if isinstance(t, ast.Subscript) and is_self_attr(t.value, SMAP):
                return '(let M := aset M %s %s in\n   %s)' % (self.key(t.slice), self.key(v), self.block(rest))
        if isinstance(s, ast.Delete) and len(s.targets) == 1 and isinstance(s.targets[0], ast.Subscript):
            t = s.targets[0]
            if is_self_attr(t.value, UMAP):
                return '(let U := adel U %s in\n   %s)' % (self.key(t.slice), self.block(rest))
            if is_self_attr(t.value, SMAP):
                return '(let M := adel M %s in\n   %s)' % (self.key(t.slice), self.block(rest))
        if isinstance(s, ast.If):
            c = self.test(s.test)
            saved = dict(self.locals)
            if self.returns(s.body) and self.returns(s.orelse):
                if rest:
                    raise Unsupported('%s: statements after if/else that both return' % self.name)
                a = self.block(s.body)
                self.locals = dict(saved)
                b = self.block(s.orelse)
                self.locals = saved
                return '(if %s then %s else %s)' % (c, a, b)
            if self.returns(s.body):
                a = self.block(s.body)
                self.locals = dict(saved)
                b = self.block(list(s.orelse) + list(rest))
                return '(if %s then %s else %s)' % (c, a, b)
            if self.returns(s.orelse):
                raise Unsupported('%s: else branch returns but then branch does not' % self.name)
            a = self.block(s.body)
            self.locals = dict(saved)
            b = self.block(s.orelse)
            self.locals = saved
            return "(let '(U, M) := (if %s then %s else %s) in\n   %s)" % (c, a, b, self.block(rest))
        if isinstance(s, ast.For) and not s.orelse:
            it = s.iter
            # for k in dict(self.units_of_work).keys()  |  for k, v in dict(self.<map>).items()
            if isinstance(it, ast.Call) and isinstance(it.func, ast.Attribute) and it.func.attr in ('keys', 'items') \
                    and isinstance(it.func.value, ast.Call) and isinstance(it.func.value.func, ast.Name) \
                    and it.func.value.func.id == 'dict' and len(it.func.value.args) == 1:
                m = it.func.value.args[0]
                which = UMAP if is_self_attr(m, UMAP) else SMAP if is_self_attr(m, SMAP) else None
                if which is None:
                    raise Unsupported('%s: loop over %s' % (self.name, _src(it)))
                saved = dict(self.locals)
                if it.func.attr == 'keys':
                    if not isinstance(s.target, ast.Name):
                        raise Unsupported('%s: loop target %s' % (self.name, _src(s.target)))
                    self.locals[s.target.id] = ('nat', s.target.id)
                    binder = 'fun st %s => ' % s.target.id
                    seq = '(map fst %s)' % ('U' if which == UMAP else 'M')
                else:
                    if not (isinstance(s.target, ast.Tuple) and len(s.target.elts) == 2
                            and all(isinstance(e, ast.Name) for e in s.target.elts)):
                        raise Unsupported('%s: loop target %s' % (self.name, _src(s.target)))
                    kname, vname = s.target.elts[0].id, s.target.elts[1].id
                    self.locals[kname] = ('nat', kname)
                    self.locals[vname] = ('uow', vname) if which == UMAP else ('nat', vname)
                    binder = 'fun st entry => let %s := fst entry in let %s := snd entry in ' % (kname, vname)
                    seq = 'U' if which == UMAP else 'M'
                for n in ast.walk(ast.Module(body=s.body, type_ignores=[])):
                    if isinstance(n, (ast.Return, ast.Break, ast.Continue)):
                        raise Unsupported('%s: return/break/continue inside a loop' % self.name)
                body = self.block(s.body)
                self.locals = saved
                # the loop runs over a COPY (dict(...)) taken before the first iteration
                return "(let '(U, M) := fold_left (%slet '(U, M) := st in %s) %s (U, M) in\n   %s)" % (
                    binder, body, seq, self.block(rest))
        raise Unsupported('%s: statement `%s`' % (self.name, _src(s).split('\n')[0]))


def find_method(tree, cls, name):
    for node in tree.body:
        if isinstance(node, ast.ClassDef) and node.name == cls:
            for f in node.body:
                if isinstance(f, ast.FunctionDef) and f.name == name:
                    return f
    raise Unsupported('%s.%s not found' % (cls, name))


def params_of(f):
    return [a.arg for a in f.args.args]


def translate_manager(src):
    tree = ast.parse(src)
    out = []
    for name in SKIPPED_SELF_CALLS:
        try:
            f = find_method(tree, 'VersioningManager', name)
        except Unsupported:
            continue
        for n in ast.walk(f):
            if isinstance(n, ast.Attribute) and n.attr in (UMAP, SMAP):
                raise Unsupported('%s touches %s' % (name, n.attr))
    specs = [
        # method, expected parameters, gallina parameters, locals
        ('unit_of_work', ['self', 'session'], '(U : list (nat * uow)) (M : list (nat * nat)) (session conn_of_session : nat)',
         {'session': ('nat', 'session')}),
        ('clear', ['self', 'session'], '(nested : bool) (U : list (nat * uow)) (M : list (nat * nat)) (session : nat)',
         {'session': ('nat', 'session')}),
        ('clear_connection', ['self', 'conn'], '(U : list (nat * uow)) (M : list (nat * nat)) (conn : nat)',
         {'conn': ('nat', 'conn')}),
        ('track_cloned_connections', ['self', 'c', 'opt'], '(U : list (nat * uow)) (M : list (nat * nat)) (c : nat)',
         {'c': ('nat', 'c')}),
    ]
    for name, expect, gparams, loc in specs:
        f = find_method(tree, 'VersioningManager', name)
        if params_of(f) != expect or f.args.vararg or f.args.kwarg or f.args.kwonlyargs or f.decorator_list:
            raise Unsupported('%s: signature %s' % (name, params_of(f)))
        fn = Fn(name, loc)
        body = fn.block(f.body)
        out.append('Definition gen_%s %s\n  : list (nat * uow) * list (nat * nat) :=\n  %s.\n' % (name, gparams, body))
    return out


def translate_operation(src):
    tree = ast.parse(src)
    consts = {}
    for node in tree.body:
        if isinstance(node, ast.ClassDef) and node.name == 'Operation':
            for st in node.body:
                if isinstance(st, ast.Assign) and len(st.targets) == 1 and isinstance(st.targets[0], ast.Name) \
                        and isinstance(st.value, ast.Constant) and isinstance(st.value.value, int):
                    consts[st.targets[0].id] = st.value.value
    if set(consts) != {'INSERT', 'UPDATE', 'DELETE'}:
        raise Unsupported('Operation constants: %s' % sorted(consts))
    out = ['Definition gen_OP_%s : Z := %d.\n' % (k, consts[k]) for k in ('INSERT', 'UPDATE', 'DELETE')]

    # Operations.add:  self[self.format_key(operation.target)] = operation   (one entry per (class, identity))
    add = find_method(tree, 'Operations', 'add')
    body = [s for s in add.body if not (isinstance(s, ast.Expr) and isinstance(s.value, ast.Constant))]
    ok = (len(body) == 1 and isinstance(body[0], ast.Assign) and isinstance(body[0].targets[0], ast.Subscript)
          and isinstance(body[0].targets[0].value, ast.Name) and body[0].targets[0].value.id == 'self'
          and _src(body[0].targets[0].slice) == 'self.format_key(operation.target)' and _src(body[0].value) == 'operation')
    if not ok:
        raise Unsupported('Operations.add: %s' % _src(add))
    setitem = find_method(tree, 'Operations', '__setitem__')
    if [_src(s) for s in setitem.body] != ['self.objects[key] = operation']:
        raise Unsupported('Operations.__setitem__')
    contains = find_method(tree, 'Operations', '__contains__')
    if [_src(s) for s in contains.body] != ['return self.format_key(target) in self.objects']:
        raise Unsupported('Operations.__contains__')

    def kind_of_add(stmt, who):
        # self.add(Operation(target, Operation.X))
        if isinstance(stmt, ast.Expr) and isinstance(stmt.value, ast.Call) and _src(stmt.value.func) == 'self.add' \
                and len(stmt.value.args) == 1:
            a = stmt.value.args[0]
            if isinstance(a, ast.Call) and _src(a.func) == 'Operation' and len(a.args) == 2 and _src(a.args[0]) == 'target' \
                    and isinstance(a.args[1], ast.Attribute) and _src(a.args[1].value) == 'Operation' \
                    and a.args[1].attr in consts:
                return 'gen_OP_%s' % a.args[1].attr
        raise Unsupported('%s: statement `%s`' % (who, _src(stmt).split('\n')[0]))

    def method(name):
        f = find_method(tree, 'Operations', name)
        if params_of(f) != ['self', 'target']:
            raise Unsupported('%s: signature' % name)
        body = [s for s in f.body if not (isinstance(s, ast.Expr) and isinstance(s.value, ast.Constant))]
        if len(body) == 1 and isinstance(body[0], ast.If) and _src(body[0].test) == 'target in self' \
                and len(body[0].body) == 1 and len(body[0].orelse) == 1:
            return '(if present then %s else %s)' % (kind_of_add(body[0].body[0], name), kind_of_add(body[0].orelse[0], name))
        if len(body) == 1:
            return kind_of_add(body[0], name)
        raise Unsupported('%s: body' % name)
    out.append('(* the kind of the operation stored for the target; `present` = the target already has an entry *)\n'
               'Definition gen_add_insert (present : bool) : Z := %s.\n' % method('add_insert'))
    out.append('Definition gen_add_delete (present : bool) : Z := %s.\n' % method('add_delete'))
    return out


HEADER = """(* ManagerGen.v - GENERATED by harness/pytrans.py from the current source of
   sqlalchemy_continuum/manager.py and sqlalchemy_continuum/operation.py.  Do not edit: the file is
   rewritten on every build.  Proofs/ManagerGenP.v proves these definitions equal to the model. *)
From Continuum Require Import Model.Base Model.VTable Model.Core Model.Manager.

Definition mem {A} (l : list (nat * A)) (k : nat) : bool :=
  match aget l k with Some _ => true | None => false end.

"""


def generate(repo, dst):
    try:
        mgr = open(os.path.join(repo, 'sqlalchemy_continuum', 'manager.py')).read()
        opr = open(os.path.join(repo, 'sqlalchemy_continuum', 'operation.py')).read()
        parts = translate_operation(opr)
        body = ''.join(p + '\n' for p in parts)
        body += 'Section Gen.\n  Variable dbapi : nat -> nat.\n  Variable closed : nat -> bool.\n\n'
        body += ''.join(p + '\n' for p in translate_manager(mgr))
        body += 'End Gen.\n'
        text, err = HEADER + body, None
    except Unsupported as e:
        err = str(e)
        text = ('(* ManagerGen.v - the translator REFUSED the current source: %s *)\n'
                'Definition translator_refused : unit := the_source_left_the_supported_subset.\n') % err.replace('*)', '* )')
    os.makedirs(os.path.dirname(dst), exist_ok=True)
    old = open(dst).read() if os.path.exists(dst) else None
    if old != text:
        with open(dst, 'w') as f:
            f.write(text)
    return err


if __name__ == '__main__':
    repo = os.environ.get('VERIF_REPO', '/repo')
    here = os.path.dirname(os.path.dirname(os.path.abspath(__file__)))
    e = generate(repo, os.path.join(here, 'coq', 'Gen', 'ManagerGen.v'))
    if e:
        sys.stderr.write('pytrans: translator refused: %s\n' % e)
    sys.path.insert(0, os.path.dirname(os.path.abspath(__file__)))
    import pytrans_schema
    e = pytrans_schema.generate(repo, os.path.join(here, 'coq', 'Gen', 'SchemaGen.v'))
    if e:
        sys.stderr.write('pytrans_schema: translator refused: %s\n' % e)
    import pytrans_uow
    e = pytrans_uow.generate(repo, os.path.join(here, 'coq', 'Gen', 'UowGen.v'))
    if e:
        sys.stderr.write('pytrans_uow: translator refused: %s\n' % e)
    import pytrans_sp
    e = pytrans_sp.generate(repo, os.path.join(here, 'coq', 'Gen', 'ManagerSpGen.v'))
    if e:
        sys.stderr.write('pytrans_sp: translator refused: %s\n' % e)
    import pytrans_vacuum
    e = pytrans_vacuum.generate(repo, os.path.join(here, 'coq', 'Gen', 'VacuumGen.v'))
    if e:
        sys.stderr.write('pytrans_vacuum: translator refused: %s\n' % e)
