"""C13 — excluded columns are never stored and never cause a version (behavioural clauses)."""
import corebase as B
from corebase import CHECK_MODS, CASE_TYPE, CORR, run_impl, encode, shrink  # noqa: F401

PROP = 'C13'
PROPCHK = 'C13_prop'
THEOREMS = ['C13_excluded_only_update_not_tracked', 'C13_no_row_without_tracked_change',
            'C13_excluded_only_object_not_modified', 'C13_no_record_without_modification',
            'C13_version_data_ignores_excluded', 'C13_example']
RULE = ('histories over the blog shape whose Article has an excluded column x (plain, and re-included via include=[x] in a '
        'variant) and, in a variant, an excluded relationship `notes` to a non-versioned class; programs mix changes of '
        'excluded and versioned attributes (x only, x + collection change, notes only, x + a); after every commit: no new '
        'version for an entity whose versioned columns did not change, no transaction record when only excluded things '
        'changed, every version row has exactly one value per non-excluded column. Non-trivial: some transaction changes '
        'an excluded attribute of a persistent entity.')
ASSUMPTIONS = B.COMMON_ASSUMPTIONS


def budget(tier):
    return 320 if tier == 'quick' else 4000


def gen_cases(rng, n, tier):
    cfgs = (B.all_cfgs('blog', dict(excl_notes=True))[::2] + B.all_cfgs('blog')[::4]
            + B.all_cfgs('blog', dict(include_x=True))[::8] + B.all_cfgs('blog', dict(excl_fk=True))[::4]
            # the exclude set given to make_versioned() only (no class-level 'exclude' key)
            + B.all_cfgs('blog', dict(mgr_excl=True))[::3] + B.all_cfgs('blog', dict(mgr_excl=True, excl_notes=True))[::5]
            # the many-to-many relationship excluded on both sides: no association version table, link changes unversioned
            + B.all_cfgs('blog', dict(excl_labels=True))[::3]
            # the excluded column mapped under an attribute name that differs from its column name
            + B.all_cfgs('blog', dict(alias_x=True))[::3]
            # the exclusion declared two levels up, the class in between with a __versioned__ of its own
            + B.all_cfgs('blog', dict(mixin_excl3=True))[::3]
            # a hierarchy whose base class excludes a column; subclasses inherit __versioned__ or declare their own
            + [c for c in B.all_cfgs('inh', dict(base_excl=True)) if not c['null_delete']][::3]
            + [c for c in B.all_cfgs('inh', dict(base_excl=True, own_v=True)) if not c['null_delete']][::2])
    cases = B.gen_cases_default(rng, n, tier, cfgs=cfgs)
    # bias: inject excluded-only transactions
    for i, c in enumerate(cases):
        if i % 2 == 0:
            extra = [['set', 0, rng.choice([1, 2]), {'x': rng.choice([0, 1, 2, None])}], ['commit']]
            if c['cfg'].get('excl_notes') and rng.random() < 0.7:
                extra = [['add', 3, 1, {'a': 0}], ['commit'], ['noteto', 1, rng.choice([1, 2])], ['commit']] + extra
            if c['cfg'].get('excl_fk'):
                # only the excluded foreign-key column changes, through the (non-excluded) relationship
                extra = [['add', 1, 5, {'a': 1}], ['commit'], ['tagto', 5, rng.choice([1, 2])], ['commit'],
                         ['tagto', 5, None], ['commit']] + extra
            c['prog'] = c['prog'] + extra
    return cases


def corpus():
    return [dict(cfg=dict(shape='blog', strategy='validity', excl_fk=True),
                 prog=[['add', 0, 1, {'a': 1}], ['add', 1, 1, {'a': 0}], ['commit'], ['tagto', 1, 1], ['commit'],
                       ['tagto', 1, None], ['commit']]),
            dict(cfg=dict(shape='blog', strategy='validity', excl_notes=True),
                 prog=[['add', 0, 1, {'a': 1}], ['add', 3, 1, {'a': 0}], ['commit'], ['noteto', 1, 1], ['commit'],
                       ['set', 0, 1, {'x': 5}], ['commit'], ['set', 0, 1, {'x': 6}], ['tagappend', 1, 1], ['commit']]),
            # exclusion configured for the manager only: transactions changing only the excluded column
            dict(cfg=dict(shape='blog', strategy='validity', mixin_excl3=True),
                 prog=[['add', 0, 1, {'a': 1, 'x': 1}], ['commit'], ['set', 0, 1, {'x': 5}], ['commit'],
                       ['set', 0, 1, {'a': 2}], ['commit'], ['set', 0, 1, {'x': 6}], ['commit']]),
            dict(cfg=dict(shape='blog', strategy='validity', excl_labels=True),
                 prog=[['add', 0, 1, {'a': 1}], ['add', 2, 1, {'a': 1}], ['link', 1, 1], ['commit'], ['unlink', 1, 1],
                       ['set', 0, 1, {'a': 2}], ['commit'], ['link', 1, 1], ['commit'], ['unlink', 1, 1], ['flush'],
                       ['set', 2, 1, {'a': 2}], ['commit']]),
            # joined / single-table children that declare their own __versioned__: the excluded column of the base class
            dict(cfg=dict(shape='inh', strategy='validity', changes=False, tracker=False, null_delete=False, autoflush=False,
                          base_excl=True, own_v=True),
                 prog=[['add', 1, 1, {'a': 1, 'pages': 1, 'x': 1}], ['add', 2, 2, {'a': 1, 'tracks': 1, 'x': 1}], ['commit'],
                       ['set', 1, 1, {'x': 5}], ['commit'], ['set', 2, 2, {'x': 5}], ['commit'], ['set', 1, 1, {'pages': 2}], ['commit']]),
            dict(cfg=dict(shape='blog', strategy='validity', mgr_excl=True),
                 prog=[['add', 0, 1, {'a': 1, 'x': 1}], ['commit'], ['set', 0, 1, {'x': 5}], ['commit'],
                       ['set', 0, 1, {'a': 2}], ['commit'], ['set', 0, 1, {'x': 6}], ['commit']])]


def nontrivial(case, obs):
    seen_commit = False
    for op in case['prog']:
        if op[0] == 'commit':
            seen_commit = True
        if seen_commit and ((op[0] == 'set' and op[1] == 0 and 'x' in op[3]) or op[0] == 'noteto'
                            or (op[0] == 'tagto' and case['cfg'].get('excl_fk'))):
            return True
    return False


features = B.features_counted
describe = B.describe_short

classify_corr = B.classify_corr
