"""C02 — one transaction record groups a commit; ids never dangle or leak."""
import corebase as B
from corebase import run_impl  # noqa: F401

PROP = 'C02'
CHECK_MODS = list(B.CHECK_MODS) + ['Checks.C02chk']
CASE_TYPE = 'C02_case'
CORR, PROPCHK = 'C02c_corr', 'C02c_prop'


def encode(case, obs):
    if case.get('obs_only') and any(ev['ev'].startswith('sp') for ev in obs.get('trace') or []):
        # released savepoints (observation-only): the marks and the snapshots taken at them are dropped; a released
        # savepoint changes nothing in the tables
        keep = [i for i, ev in enumerate(obs['trace']) if not ev['ev'].startswith('sp')]
        obs = dict(obs, trace=[obs['trace'][i] for i in keep], snaps=[obs['snaps'][i] for i in keep])
    return '(%s %s)' % ('C02_O' if case.get('obs_only') else 'C02_H', B.encode(case, obs))


def shrink(case):
    out = B.shrink(case)
    for c in out:
        if case.get('obs_only'):
            c['obs_only'] = True
    return out
THEOREMS = ['C02_no_dangling_reference', 'C02_rows_carry_current_id', 'C02_one_record_per_transaction',
            'C02_record_iff_modified', 'C02_invariant', 'C02_example']
RULE = ('seeded user programs (add / set incl. same-value and NULL / delete / link / unlink / re-point / flush / commit / '
        'rollback / query-autoflush / manual create_transaction) over the blog shape (Article-Tag-Label-Note, excluded column '
        'and relationship) and the composite/string-key shape, both strategies, all plugin subsets, autoflush on/off, are run on '
        'the real code; the listener-level trace and every table after every flush/commit/rollback are recorded; the model is '
        'replayed on the trace and compared step by step, and the C02 predicate (one id per transaction, record created in it, '
        'larger than earlier ids, no record without a versioned change, no dangling id, rollback removes the record) is '
        'evaluated on the snapshots. Non-trivial: >= 2 commits and (key reuse or NULL set or >= 2 flushes).')
ASSUMPTIONS = B.COMMON_ASSUMPTIONS


def budget(tier):
    return 384 if tier == 'quick' else 4000


def gen_cases(rng, n, tier):
    cases = B.gen_cases_default(rng, n, tier, manualtx=True)
    # a plugin supplies an attribute of the transaction record: every record has to carry it, also one that is
    # created late (a flush in which nothing looked modified beforehand: cascade from a non-versioned parent)
    extra = B.gen_cases_default(rng, max(30, n // 8), tier, manualtx=True,
                                cfgs=[dict(c, txargs=True) for c in B.all_cfgs('own')[::2] + B.all_cfgs('blog')[::4]])
    cases += extra
    k = 0
    for c in cases:
        if c['cfg'].get('shape') != 'blog':
            continue
        # a second application session on the same connection joins the running database transaction after a flush,
        # adds something non-versioned and is committed: still one transaction record per database transaction
        prog = []
        for op in c['prog']:
            prog.append(op)
            if op[0] == 'flush' and rng.random() < 0.25:
                k += 1
                prog.append(['helper', 20 + k])
        c['prog'] = prog
    # versioning switched off and on again while a history runs (observation-only cases)
    for i in range(max(8, n // 40)):
        base = [['add', 0, 1, {'a': 1}], ['add', 0, 2, {'a': 1}], ['commit']]
        for rnd in range(rng.randint(1, 3)):
            base += [['set', 0, rng.choice([1, 2]), {'a': 10 + 3 * rnd}]]
            if rng.random() < 0.7:
                base.append(['flush'])
            base += [['vswitch', False]]
            if rng.random() < 0.6:
                base.append(['set', 3, 1, {'a': rnd}] if rnd else ['add', 3, 1, {'a': 0}])
            base += [['commit'], ['vswitch', True], ['set', 0, rng.choice([1, 2]), {'a': 11 + 3 * rnd}], ['commit']]
        cases.append(dict(cfg=dict(shape='blog', strategy=rng.choice(['validity', 'subquery']), twin=False), prog=base, obs_only=True))
    # a savepoint released inside the transaction (no rollback anywhere): the transactions before and after it get
    # their one record each, whether or not anything is flushed between the release and the commit
    for i in range(max(8, n // 40)):
        base = [['add', 0, 1, {'a': 1}], ['add', 0, 2, {'a': 1}], ['commit']]
        for rnd in range(rng.randint(2, 3)):
            base += [['set', 0, rng.choice([1, 2]), {'a': 10 + 3 * rnd}], ['flush'], ['sp_begin']]
            if rng.random() < 0.6:
                base += [['set', 0, rng.choice([1, 2]), {'a': 11 + 3 * rnd}]]
                if rng.random() < 0.5:
                    base.append(['flush'])
            base.append(['sp_release'])
            if rng.random() < 0.3:
                base += [['set', 0, 1, {'b': rnd}], ['flush']]
            base.append(['commit'])
        cases.append(dict(cfg=dict(shape='blog', strategy=rng.choice(['validity', 'subquery']), twin=False,
                                   changes=rng.random() < 0.5), prog=base, obs_only=True))
    return cases


def corpus():
    return [
        # the same related object assigned again on an expired owner (nothing changes): no record, no version
        dict(cfg=dict(shape='blog', strategy='validity', twin=False),
             prog=[['add', 0, 1, {'a': 1}], ['add', 1, 1, {'a': 1}], ['tagto', 1, 1], ['commit'], ['tagto', 1, 1], ['commit'],
                   ['add', 3, 1, {'a': 0}], ['tagto', 1, 1], ['commit'], ['set', 0, 1, {'a': 2}], ['commit']]),
        dict(cfg=dict(shape='blog', strategy='subquery', twin=False, changes=True, autoflush=True),
             prog=[['add', 0, 1, {'a': 1}], ['add', 0, 2, {'a': 1}], ['add', 1, 1, {'a': 1}], ['tagto', 1, 2], ['commit'], ['tagto', 1, 2],
                   ['flush'], ['tagto', 1, 2], ['commit'], ['tagto', 1, 1], ['commit']]),
        dict(cfg=dict(shape='blog', strategy='validity', twin=False), obs_only=True,
             prog=[['add', 0, 1, {'a': 1}], ['commit'], ['set', 0, 1, {'a': 2}], ['flush'], ['sp_begin'], ['sp_release'], ['commit'],
                   ['set', 0, 1, {'a': 3}], ['add', 0, 2, {'a': 1}], ['commit'], ['set', 0, 2, {'a': 3}], ['commit']]),
        dict(cfg=dict(shape='blog', strategy='validity', excl_notes=True),
             prog=[['add', 0, 1, {'a': 1}], ['add', 3, 1, {'a': 0}], ['commit'], ['noteto', 1, 1], ['commit']]),
        dict(cfg=dict(shape='blog', strategy='validity', changes=True),
             prog=[['add', 3, 1, {'a': 0}], ['commit'], ['set', 3, 1, {'a': 1}], ['commit'],
                   ['add', 0, 1, {'a': 1}], ['flush'], ['add', 1, 1, {}], ['flush'], ['rollback'],
                   ['add', 0, 1, {'a': 2}], ['commit']]),
        dict(cfg=dict(shape='own', strategy='validity', txargs=True),
             prog=[['add', 0, 1, {'a': 1}], ['add', 1, 1, {'a': 1}], ['petto', 1, 1], ['commit'], ['forget'], ['del', 0, 1], ['commit'],
                   ['set', 1, 1, {'a': 2}], ['commit']]),
        # a relationship touched without net change (linked and unlinked again before the flush; a tag re-pointed to
        # the parent it has) and nothing else: no transaction record
        dict(cfg=dict(shape='blog', strategy='validity'),
             prog=[['add', 0, 1, {'a': 1}], ['add', 2, 1, {'a': 1}], ['add', 1, 1, {'a': 0}], ['tagto', 1, 1], ['commit'],
                   ['link', 1, 1], ['unlink', 1, 1], ['commit'], ['tagto', 1, 1], ['commit'],
                   ['link', 1, 1], ['commit'], ['unlink', 1, 1], ['link', 1, 1], ['commit']]),
        # the manager-level switch options['versioning'] turned off before a commit and on again afterwards (judged on
        # the observations only): the next transaction gets a record of its own
        dict(cfg=dict(shape='blog', strategy='validity', twin=False), obs_only=True,
             prog=[['add', 0, 1, {'a': 1}], ['commit'], ['set', 0, 1, {'a': 2}], ['flush'], ['vswitch', False],
                   ['add', 3, 1, {'a': 0}], ['commit'], ['vswitch', True], ['set', 0, 1, {'a': 3}], ['add', 0, 2, {'a': 1}],
                   ['commit']]),
        # a helper session on the same connection, committed inside the main session's database transaction
        dict(cfg=dict(shape='blog', strategy='validity'),
             prog=[['add', 0, 1, {'a': 1}], ['commit'], ['set', 0, 1, {'a': 2}], ['flush'], ['helper', 21],
                   ['add', 0, 2, {'a': 1}], ['flush'], ['set', 0, 1, {'a': 3}], ['commit']]),
    ]


classify_corr = B.classify_corr
nontrivial = B.nontrivial_default
features = B.features_counted
describe = B.describe_short
