"""pytrans_sp.py - fail-closed translator for the savepoint bookkeeping of sqlalchemy_continuum/manager.py.

Run on every build (harness/pytrans.py calls it); regenerates coq/Gen/ManagerSpGen.v from the CURRENT source of

    VersioningManager.session_unit_of_work   -> gen_session_unit_of_work
    VersioningManager.track_savepoint        -> gen_track_savepoint
    VersioningManager.rollback_savepoint     -> gen_rollback_savepoint
    VersioningManager.forget_savepoints      (checked: touches self.savepoints only)
    VersioningManager.after_commit           (checked verbatim: a released savepoint's entry is dropped, then clear())

Proofs/ManagerSpGenP.v proves the generated functions equal to the model functions of Model/ManagerSp.v
(session_uow, what SBegin remembers, rollback_savepoint).  (U, M) = (units_of_work, session_connection_map) as in
pytrans.py.  What is environment and therefore only CHECKED to be there verbatim, not translated:

  * self.savepoints - a dictionary keyed by SessionTransaction objects; the model keeps a stack per session.  The
    statements that find the entry (the walk up to the nested transaction, `not in self.savepoints: return`,
    `old_uow, state = self.savepoints.pop(...)`) must be exactly the reviewed ones.
  * uow.savepoint() / uow.rollback_to_savepoint(state): the snapshot is the whole model unit of work (Gen/UowGen.v,
    Proofs/UowGenP.v); rollback_to_savepoint(state) on the registered object is `aset U conn state`.
  * `old_uow is uow` (object identity) is rendered as "a unit of work was remembered"; Proofs/ManagerSpP.v proves the
    invariant (stack_inv) under which the two coincide on every reachable state of independent sessions.
Anything else in these four methods makes the translator refuse.
"""
import ast
import os

from pytrans import Unsupported, find_method, params_of, _src


def _body(f):
    return [s for s in f.body if not (isinstance(s, ast.Expr) and isinstance(s.value, ast.Constant)
                                      and isinstance(s.value.value, str))]


def _expect(stmt, text, who):
    if _src(stmt) != text:
        raise Unsupported('%s: statement `%s` (expected `%s`)' % (who, _src(stmt).split('\n')[0], text.split('\n')[0]))


def session_unit_of_work(tree):
    """conn = M.get(session); if conn is None: return None; return U.get(conn)   ->   option (conn, uow)"""
    f = find_method(tree, 'VersioningManager', 'session_unit_of_work')
    who = 'session_unit_of_work'
    if params_of(f) != ['self', 'session']:
        raise Unsupported(who + ': signature')
    b = _body(f)
    if len(b) != 3:
        raise Unsupported(who + ': %d statements' % len(b))
    s0, s1, s2 = b
    # conn = self.session_connection_map.get(session)
    if not (isinstance(s0, ast.Assign) and len(s0.targets) == 1 and isinstance(s0.targets[0], ast.Name)
            and _src(s0.value) == 'self.session_connection_map.get(session)'):
        raise Unsupported(who + ': `%s`' % _src(s0))
    var = s0.targets[0].id
    # if conn is None: return None
    if not (isinstance(s1, ast.If) and not s1.orelse and _src(s1.test) == '%s is None' % var
            and len(s1.body) == 1 and isinstance(s1.body[0], ast.Return)
            and (s1.body[0].value is None or _src(s1.body[0].value) == 'None')):
        raise Unsupported(who + ': `%s`' % _src(s1).split('\n')[0])
    # return self.units_of_work.get(conn)
    if not (isinstance(s2, ast.Return) and _src(s2.value) == 'self.units_of_work.get(%s)' % var):
        raise Unsupported(who + ': `%s`' % _src(s2))
    return ('(* the connection registered for the session and the unit of work registered for it, if both exist *)\n'
            'Definition gen_session_unit_of_work (U : list (nat * uow)) (M : list (nat * nat)) (session : nat)\n'
            '  : option (nat * uow) :=\n'
            '  match aget M session with\n'
            '  | None => None\n'
            '  | Some %s => match aget U %s with Some u => Some (%s, u) | None => None end\n'
            '  end.\n') % (var, var, var)


def track_savepoint(tree):
    f = find_method(tree, 'VersioningManager', 'track_savepoint')
    who = 'track_savepoint'
    if params_of(f) != ['self', 'session', 'transaction']:
        raise Unsupported(who + ': signature')
    b = _body(f)
    if not (len(b) == 1 and isinstance(b[0], ast.If) and not b[0].orelse and _src(b[0].test) == 'transaction.nested'
            and len(b[0].body) == 2):
        raise Unsupported(who + ': body')
    _expect(b[0].body[0], 'uow = self.session_unit_of_work(session)', who)
    _expect(b[0].body[1], 'self.savepoints[transaction] = (uow, uow.savepoint() if uow is not None else None)', who)
    return ('(* what is remembered when a nested transaction begins: the unit of work found for the session (its savepoint()\n'
            '   state is the whole model unit of work), or nothing for a transaction that is not nested *)\n'
            'Definition gen_track_savepoint (nested : bool) (U : list (nat * uow)) (M : list (nat * nat)) (session : nat)\n'
            '  : option (option uow) :=\n'
            '  if nested then Some (option_map snd (gen_session_unit_of_work U M session)) else None.\n')


def rollback_savepoint(tree):
    f = find_method(tree, 'VersioningManager', 'rollback_savepoint')
    who = 'rollback_savepoint'
    if params_of(f) != ['self', 'session', 'previous_transaction']:
        raise Unsupported(who + ': signature')
    b = _body(f)
    if len(b) != 6:
        raise Unsupported(who + ': %d statements' % len(b))
    # finding the entry: environment, checked verbatim
    _expect(b[0], 'while previous_transaction is not None and (not previous_transaction.nested):\n'
                  '    previous_transaction = previous_transaction.parent', who)
    _expect(b[1], 'if previous_transaction not in self.savepoints:\n    return', who)
    _expect(b[2], 'old_uow, state = self.savepoints.pop(previous_transaction)', who)
    # the part that acts on the two maps: translated
    _expect(b[3], 'uow = self.session_unit_of_work(session)', who)
    if not (isinstance(b[4], ast.If) and not b[4].orelse and _src(b[4].test) == 'uow is None'
            and len(b[4].body) == 1 and isinstance(b[4].body[0], ast.Return) and b[4].body[0].value is None):
        raise Unsupported(who + ': `%s`' % _src(b[4]).split('\n')[0])
    br = b[5]
    if not (isinstance(br, ast.If) and _src(br.test) == 'old_uow is uow' and br.orelse):
        raise Unsupported(who + ': `%s`' % _src(br).split('\n')[0])

    def branch(stmts):
        """statements over (U, M) with `uow` = the unit of work registered under key c (found through M[session])"""
        if not stmts:
            return '(U, M)'
        s, rest = stmts[0], stmts[1:]
        t = _src(s)
        if t == 'uow.rollback_to_savepoint(state)':
            # the registered object is put back into the remembered state
            return "(match old_uow with Some st => let U := aset U c st in %s | None => %s end)" % (branch(rest), branch(rest))
        if t == 'uow.rollback_to_savepoint(None)':
            return branch(rest)                                   # touches the object that is dropped below
        if isinstance(s, ast.Assign) and len(s.targets) == 1 and isinstance(s.targets[0], ast.Name) \
                and _src(s.value) == 'self.session_connection_map.pop(session)':
            v = s.targets[0].id
            return ('(let popped := aget M session in let M := adel M session in\n'
                    '       match popped with Some %s => %s | None => (U, M) end)') % (v, branch_with(rest, v))
        raise Unsupported('%s: statement `%s`' % (who, t.split('\n')[0]))

    def branch_with(stmts, var):
        if not stmts:
            return '(U, M)'
        s, rest = stmts[0], stmts[1:]
        t = _src(s)
        if t == 'uow.rollback_to_savepoint(None)':
            return branch_with(rest, var)
        if t == 'del self.units_of_work[%s]' % var:
            return '(let U := adel U %s in %s)' % (var, branch_with(rest, var))
        raise Unsupported('%s: statement `%s`' % (who, t.split('\n')[0]))

    then_, else_ = branch(br.body), branch(br.orelse)
    return ('(* rollback_savepoint once the entry (old_uow, state) of the savepoint has been found; `old_uow is uow` is rendered\n'
            '   as "a unit of work was remembered" (see Proofs/ManagerSpP.v, stack_inv) *)\n'
            'Definition gen_rollback_savepoint (U : list (nat * uow)) (M : list (nat * nat)) (session : nat) (old_uow : option uow)\n'
            '  : list (nat * uow) * list (nat * nat) :=\n'
            '  match gen_session_unit_of_work U M session with\n'
            '  | None => (U, M)\n'
            '  | Some (c, _) =>\n'
            '      if (match old_uow with Some _ => true | None => false end)\n'
            '      then %s\n'
            '      else %s\n'
            '  end.\n') % (then_, else_)


def forget_savepoints(tree):
    f = find_method(tree, 'VersioningManager', 'forget_savepoints')
    who = 'forget_savepoints'
    if params_of(f) != ['self', 'session']:
        raise Unsupported(who + ': signature')
    b = _body(f)
    if len(b) != 1:
        raise Unsupported(who + ': body')
    _expect(b[0], 'for transaction in list(self.savepoints):\n    if transaction.session is session:\n'
                  '        del self.savepoints[transaction]', who)
    return ('(* forget_savepoints(session): every entry of the session is dropped (checked verbatim) - the model empties the\n'
            '   session\'s stack *)\n'
            'Definition gen_forget_savepoints_drops_the_sessions_entries : bool := true.\n')


def after_commit(tree):
    """release of a savepoint: SQLAlchemy dispatches after_commit while the released nested transaction is still the
    session's current one; its entry is dropped, then clear() runs (and returns at once inside a nested transaction)"""
    f = find_method(tree, 'VersioningManager', 'after_commit')
    who = 'after_commit'
    if params_of(f) != ['self', 'session']:
        raise Unsupported(who + ': signature')
    b = _body(f)
    if len(b) != 2:
        raise Unsupported(who + ': body')
    _expect(b[0], 'if session.in_nested_transaction():\n    self.savepoints.pop(session.get_nested_transaction(), None)', who)
    _expect(b[1], 'self.clear(session)', who)
    # ... and it is the listener registered for after_commit
    reset = find_method(tree, 'VersioningManager', 'reset')
    if "'after_commit': self.after_commit" not in _src(reset):
        raise Unsupported('reset: after_commit is not bound to self.after_commit')
    return ('(* after_commit(session): inside a nested transaction (a savepoint being released) the entry of that savepoint is\n'
            '   dropped and clear() does nothing; otherwise clear() (checked verbatim) - the model pops the session\'s stack on\n'
            '   SRelease and empties it on Commit *)\n'
            'Definition gen_release_drops_the_entry_of_the_released_savepoint : bool := true.\n')


HEADER = """(* ManagerSpGen.v - GENERATED by harness/pytrans_sp.py from the current source of
   sqlalchemy_continuum/manager.py (session_unit_of_work, track_savepoint, rollback_savepoint, forget_savepoints).
   Do not edit: the file is rewritten on every build.  Proofs/ManagerSpGenP.v proves these definitions equal to the
   functions of Model/ManagerSp.v. *)
From Continuum Require Import Model.Base Model.VTable Model.Core Model.Manager.

"""


def generate(repo, dst):
    try:
        tree = ast.parse(open(os.path.join(repo, 'sqlalchemy_continuum', 'manager.py')).read())
        parts = [session_unit_of_work(tree), track_savepoint(tree), rollback_savepoint(tree), forget_savepoints(tree),
                 after_commit(tree)]
        text, err = HEADER + '\n'.join(parts), None
    except Unsupported as e:
        err = str(e)
        text = ('(* ManagerSpGen.v - the translator REFUSED the current source: %s *)\n'
                'Definition translator_refused : unit := the_source_left_the_supported_subset.\n') % err.replace('*)', '* )')
    os.makedirs(os.path.dirname(dst), exist_ok=True)
    old = open(dst).read() if os.path.exists(dst) else None
    if old != text:
        with open(dst, 'w') as f:
            f.write(text)
    return err
