"""Shared pieces for the Layer-A (table-level) properties: model shapes, random version
tables, loading rows into the real version table, Gallina encoding of rows."""
import json

from framework import gZ, gopt, glist, gbool

CFGS = []
for strategy in ('subquery', 'validity'):
    for keyshape in ('int', 'composite'):
        # custom: the internal column names are options of the manager (and of the class); class: of the class only
        for names in ('default', 'custom', 'class'):
            CFGS.append(dict(strategy=strategy, keyshape=keyshape, names=names))


def cfg_options(cfg):
    o = {'strategy': cfg['strategy']}
    if cfg.get('names') == 'custom':
        o['transaction_column_name'] = 'tx_id'
        o['end_transaction_column_name'] = 'end_tx_id'
    if cfg.get('table_name'):
        o['table_name'] = cfg['table_name']
    return o


def colnames(cfg):
    if cfg.get('names') in ('custom', 'class'):
        return 'tx_id', 'end_tx_id'
    return 'transaction_id', 'end_transaction_id'


def build_article(cfg):
    """Model builder: one versioned class `Article` with two nullable integer data columns."""
    import sqlalchemy as sa

    def build(env, Base, opts):
        if opts is not None and cfg.get('names') == 'class':
            opts = dict(opts, transaction_column_name='tx_id', end_transaction_column_name='end_tx_id')
        attrs = {'__tablename__': 'article', '__versioned__': opts}
        if cfg['keyshape'] == 'composite':
            attrs['id1'] = sa.Column(sa.Integer, primary_key=True, autoincrement=False)
            attrs['id2'] = sa.Column(sa.Integer, primary_key=True, autoincrement=False)
        elif cfg['keyshape'] == 'str':
            attrs['id'] = sa.Column(sa.Unicode(255), primary_key=True)
        else:
            attrs['id'] = sa.Column(sa.Integer, primary_key=True, autoincrement=False)
        attrs['a'] = sa.Column(sa.Integer)
        if cfg.get('modattr'):
            # the second data column is mapped under an attribute whose name ends like a modification flag
            attrs['last_mod'] = sa.Column(sa.Integer)
        else:
            attrs['b'] = sa.Column(sa.Integer)
        if opts is None:
            del attrs['__versioned__']
        env.Article = type('Article', (Base,), attrs)
    return build


def bcol(cfg):
    return 'last_mod' if cfg.get('modattr') else 'b'


def keycols(cfg):
    return ['id1', 'id2'] if cfg['keyshape'] == 'composite' else ['id']


def gen_key(rng, cfg):
    # key values include 0: a falsy key component is a key like any other
    if cfg['keyshape'] == 'composite':
        return [rng.randint(0, 2), rng.randint(0, 2)]
    return [rng.randint(0, 4)]


def fill_chain(rows):
    """Set `end` of every row to the next larger tx of the same key (validity chain)."""
    by = {}
    for r in rows:
        by.setdefault(tuple(r['key']), []).append(r)
    for rs in by.values():
        rs.sort(key=lambda r: r['tx'])
        for a, b in zip(rs, rs[1:]):
            a['end'] = b['tx']
        rs[-1]['end'] = None


def gen_table(rng, cfg, max_keys=4, max_tx=14, chain=None, maxlen=5):
    nkeys = rng.randint(1, max_keys)
    keys = []
    while len(keys) < nkeys:
        k = gen_key(rng, cfg)
        if k not in keys:
            keys.append(k)
        elif cfg['keyshape'] == 'composite' and len(keys) >= 4:
            break
    rows = []
    vals = [None, 0, 1, 2]
    for k in keys:
        n = rng.randint(1, maxlen)
        txs = sorted(rng.sample(range(1, max_tx + 1), n))
        sticky = rng.random() < 0.5
        prev = [rng.choice(vals), rng.choice(vals)]
        for j, tx in enumerate(txs):
            if sticky and rng.random() < 0.5:
                dat = list(prev)
            else:
                dat = [rng.choice(vals), rng.choice(vals)]
            prev = dat
            if j == 0:
                op = rng.choice([0, 0, 0, 1])
            elif j == len(txs) - 1:
                op = rng.choice([1, 1, 2])
            else:
                op = rng.choice([1, 1, 1, 2, 0])
            rows.append(dict(key=k, tx=tx, end=None, op=op, dat=dat))
    rng.shuffle(rows)
    if chain if chain is not None else cfg['strategy'] == 'validity':
        fill_chain(rows)
    return rows


def load_rows(env, cfg, rows, with_parents=True, mods=None):
    """Insert the rows into the real version table with Core INSERTs (plus one live parent per key)."""
    import sqlalchemy as sa
    Article = env.Article
    V = env.version_class(Article)
    vt = V.__table__
    txc, endc = colnames(cfg)
    kc = keycols(cfg)
    conn = env.connection
    conn.execute(vt.delete())
    conn.execute(Article.__table__.delete())
    payload = []
    for r in rows:
        d = dict(zip(kc, r['key']))
        d[txc] = r['tx']
        if cfg['strategy'] == 'validity':
            d[endc] = r['end']
        d['operation_type'] = r['op']
        d['a'], d[bcol(cfg)] = r['dat']
        if mods is not None:
            d['a_mod'], d['b_mod'] = r.get('mod', [False, False])
        payload.append(d)
    if payload:
        conn.execute(vt.insert(), payload)
    if with_parents:
        seen = []
        for r in rows:
            if r['key'] not in seen:
                seen.append(r['key'])
        if seen:
            conn.execute(Article.__table__.insert(), [dict(zip(kc, k)) for k in seen])
    conn.commit()


def read_rows(env, cfg, with_mods=False):
    """Read the version table back as canonical row dicts (sorted by key, tx)."""
    import sqlalchemy as sa
    V = env.version_class(env.Article)
    vt = V.__table__
    txc, endc = colnames(cfg)
    kc = keycols(cfg)
    out = []
    for row in env.connection.execute(sa.select(vt)).mappings():
        r = dict(key=[row[c] for c in kc], tx=row[txc],
                 end=row[endc] if cfg['strategy'] == 'validity' else None,
                 op=row['operation_type'], dat=[row['a'], row[bcol(cfg)]])
        if with_mods:
            r['mod'] = [bool(row['a_mod']), bool(row['b_mod'])]
        out.append(r)
    out.sort(key=lambda r: (r['key'], r['tx']))
    return out


def grow(r):
    return '(mkv %s %s %s %s %s %s)' % (
        glist(r['key']), gZ(r['tx']), gopt(r.get('end')), gZ(r['op']),
        glist(r['dat'], gopt), glist(r.get('mod', []), gbool))


def gtable(rows):
    return glist(rows, grow)


def shrink_rows(rows):
    """Candidate smaller tables: drop one row, drop one key, lower a value."""
    out = []
    for i in range(len(rows)):
        out.append(rows[:i] + rows[i + 1:])
    keys = []
    for r in rows:
        if r['key'] not in keys:
            keys.append(r['key'])
    if len(keys) > 1:
        for k in keys:
            out.append([r for r in rows if r['key'] != k])
    return [json.loads(json.dumps(t)) for t in out if t]
