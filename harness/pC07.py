"""C07 — versioning is transparent to the application's own data and outcomes."""
import json

import corebase as B
import env as E
import hist

PROP = 'C07'
CHECK_MODS = ['Model.Core', 'Checks.Corechk', 'Checks.CoreProps', 'Checks.C07chk']
CASE_TYPE = 'C07_case'
CORR, PROPCHK = 'C07_corr', 'C07_case_prop'
RELAX = [('F-C01-row-switch', 'C07_corr')]   # placeholder, replaced below
del RELAX
THEOREMS = ['C07_application_tables_independent_of_versioning', 'C07_versioning_never_raises',
            'C07_removed_versioning_writes_nothing', 'C07_example']
RULE = ('(H) every generated history (general generator, link generator incl. link+unlink of one pair in one transaction, raw '
        'Core INSERT/DELETE on the association table before any flush, autoflush on/off, all plugin subsets) is executed '
        'twice on the real code - with make_versioned and on an identical unversioned model set - and the per-operation '
        'outcomes (ok / error / skipped) and the final application tables are compared; the versioned run is also replayed '
        'in the model. (R) after a versioned prefix, remove_versioning() is called and more work is done: no version / '
        'association-version / transaction / changes row may appear and no listener of the package may remain registered. '
        'Non-trivial: (H) >= 2 commits and some operation that fails identically in both runs, or a raw association '
        'statement, or a link+unlink pair; (R) the suffix changes the application tables.')
ASSUMPTIONS = B.COMMON_ASSUMPTIONS + ['polymorphic / deferred partially-loaded objects are not in the generated shapes yet']


def budget(tier):
    return 300 if tier == 'quick' else 4000


def gen_cases(rng, n, tier):
    import pC10
    out = []
    base = B.gen_cases_default(rng, n, tier)
    links = pC10.gen_cases(rng, max(20, n // 5), tier)
    for i, c in enumerate(base):
        c['kind'] = 'H'
        if i % 6 == 0 and c['cfg']['shape'] == 'blog':
            # raw statements on the association table, early in a transaction
            pos = rng.randint(0, max(0, len(c['prog']) - 1))
            c['prog'] = ([['add', 0, 1, {'a': 1}], ['add', 2, 1, {'a': 1}], ['add', 2, 2, {'a': 1}], ['commit'],
                          ['rawlink', 1, 1]] + c['prog'][:pos] + [['commit'], ['rawunlink', 1, 1], ['flush'],
                                                                  ['rawlink_inline', 1, 2], ['flush']] + c['prog'][pos:])
        out.append(c)
    for c in links:
        c['kind'] = 'H'
        out.append(c)
    # savepoints (rollback / release / a flush failing inside / retries after a rollback): twin run only - the Layer-B
    # replay of savepoints belongs to C06; here outcomes and application tables with and without versioning
    import pC06
    spcfgs = [c for c in B.all_cfgs('blog') if not c['null_delete']]
    for i in range(max(12, n // 12)):
        prog = [op for op in pC06.gen_sp_program(rng) if op[0] not in ('conn_rollback', 'rawlink', 'rawunlink', 'manualtx', 'sp_fail')]
        out.append(dict(kind='H', cfg=dict(spcfgs[(i * 5) % len(spcfgs)]), prog=prog, twin_only=True))
    # objects the flush itself deletes (delete-orphan children, cascades) that carry an unloaded (deferred) column
    for i in range(max(10, n // 12)):
        out.append(dict(kind='O', cfg=dict(shape='orphan', strategy='validity' if i % 2 else 'subquery', joined=(i % 3 == 0)),
                        prog=gen_orphan_prog(rng)))
    # two real database connections (a database file): a statement on the many-to-many association table over a
    # connection of the application's own while another session's transaction is open (added after ninth-round
    # seeded change C07_9_assoc_lookup_unguarded was missed)
    for i in range(max(8, n // 40)):
        out.append(dict(kind='O', cfg=dict(shape='orphan', strategy='validity' if i % 2 else 'subquery', cross=True),
                        prog=gen_cross_prog(rng)))
    for i in range(max(10, n // 10)):
        cfg = dict(B.all_cfgs('blog')[i % 32])
        cfg['twin'] = False
        out.append(dict(kind='R', cfg=cfg, prog=hist.gen_program(rng, cfg, n_ops=8),
                        prog2=hist.gen_program(rng, cfg, n_ops=8)))
    return out


def corpus():
    cfg = dict(shape='blog', strategy='validity')
    inh = dict(shape='inh', strategy='validity', changes=False, tracker=False, null_delete=False, autoflush=False)
    return [dict(kind='H', cfg=inh, twin_only=True,
                 prog=[['add', 0, 1, {'a': 1}], ['commit'], ['del', 0, 1], ['flush'],
                       ['add', 2, 1, {'a': 2, 'tracks': 3}], ['commit'], ['set', 2, 1, {'tracks': 4}], ['commit']]),
            # base class -> joined-table child, and joined child -> single-table sibling, within one transaction
            dict(kind='H', cfg=inh, twin_only=True,
                 prog=[['add', 0, 1, {'a': 1}], ['commit'], ['del', 0, 1], ['flush'],
                       ['add', 1, 1, {'a': 2, 'pages': 3}], ['commit'], ['set', 1, 1, {'pages': 4}], ['commit']]),
            dict(kind='H', cfg=dict(inh, strategy='subquery'), twin_only=True,
                 prog=[['add', 0, 1, {'a': 1}], ['commit'], ['del', 0, 1], ['flush'],
                       ['add', 1, 1, {'a': 2, 'pages': 3}], ['commit'], ['set', 1, 1, {'pages': 4}], ['commit']]),
            dict(kind='H', cfg=inh, twin_only=True,
                 prog=[['add', 2, 1, {'a': 1, 'tracks': 2}], ['commit'], ['del', 2, 1], ['flush'],
                       ['add', 1, 1, {'a': 2, 'pages': 3}], ['commit']]),
            dict(kind='H', cfg=inh, twin_only=True,
                 prog=[['add', 1, 3, {'a': 1, 'pages': 2}], ['commit'], ['del', 1, 3], ['flush'],
                       ['add', 0, 3, {'a': 2}], ['commit'], ['set', 0, 3, {'a': 4}], ['commit']]),
            # a joined-table child loaded through its base class (child columns not loaded) and deleted in a LATER flush of
            # a transaction that already had a versioned flush
            dict(kind='H', cfg=inh,
                 prog=[['add', 1, 1, {'a': 1, 'pages': 2}], ['commit'], ['add', 0, 2, {'a': 1}], ['flush'], ['forget'],
                       ['delbase', 1, 1], ['commit'], ['add', 1, 1, {'a': 3, 'pages': 4}], ['commit']]),
            dict(kind='H', cfg=inh,
                 prog=[['add', 1, 1, {'a': 1, 'pages': 2}], ['add', 1, 2, {'a': 1, 'pages': 2}], ['commit'], ['forget'],
                       ['delbase', 1, 1], ['flush'], ['delbase', 1, 2], ['commit']]),
            # an entity versioned for the first time inside a savepoint that is rolled back, then changed again
            dict(kind='H', cfg=cfg, twin_only=True,
                 prog=[['add', 0, 1, {'a': 1}], ['add', 0, 2, {'a': 1}], ['commit'], ['set', 0, 1, {'a': 2}], ['flush'], ['sp_begin'],
                       ['set', 0, 2, {'a': 2}], ['flush'], ['sp_rollback'], ['set', 0, 2, {'a': 3}], ['flush'], ['commit']]),
            dict(kind='H', cfg=dict(cfg, strategy='subquery'), twin_only=True,
                 prog=[['add', 0, 1, {'a': 1}], ['add', 0, 2, {'a': 1}], ['commit'], ['set', 0, 1, {'a': 2}], ['flush'], ['sp_begin'],
                       ['set', 0, 2, {'a': 2}], ['flush'], ['sp_rollback'], ['set', 0, 2, {'a': 3}], ['flush'], ['commit']]),
            # an association table without a primary key: two links in one transaction (open finding)
            dict(kind='O', cfg=dict(shape='orphan', strategy='validity', keyless=True),
                 prog=[['addp', 1], ['addc', 1, 1], ['addc', 2, 1], ['commit'], ['mark', 1, 1], ['mark', 1, 2], ['commit'], ['commit']]),
            dict(kind='O', cfg=dict(shape='orphan', strategy='subquery', keyless=True),
                 prog=[['addp', 1], ['addc', 1, 1], ['commit'], ['mark', 1, 1], ['commit'], ['setp', 1, 2], ['commit']]),
            # a delete-orphan child of a joined-table subclass, loaded through the base class
            dict(kind='O', cfg=dict(shape='orphan', strategy='validity', joined=True),
                 prog=[['addp', 1], ['addc', 1, 1], ['commit'], ['orphan', 1], ['commit'], ['commit']]),
            # a versioned object whose row was removed behind the session's back stays in the session (expired); later
            # transactions that touch only other data must go through as they do without versioning
            dict(kind='H', cfg=cfg, twin_only=True,
                 prog=[['add', 0, 1, {'a': 1}], ['add', 0, 2, {'a': 1}], ['commit'], ['bulkdel', 0, 1], ['commit'],
                       ['add', 3, 1, {'a': 0}], ['commit'], ['set', 3, 1, {'a': 1}], ['commit']]),
            # a Core statement on the association table that names only one of its columns, after a versioned flush
            dict(kind='H', cfg=cfg, twin_only=True,
                 prog=[['add', 0, 1, {'a': 1}], ['add', 2, 1, {'a': 1}], ['link', 1, 1], ['commit'], ['set', 0, 1, {'a': 2}], ['flush'],
                       ['rawpartial', 1], ['commit'], ['set', 0, 1, {'a': 3}], ['commit']]),
            dict(kind='H', cfg=dict(cfg, strategy='subquery'), twin_only=True,
                 prog=[['add', 0, 1, {'a': 1}], ['add', 2, 1, {'a': 1}], ['add', 2, 2, {'a': 1}], ['link', 1, 1], ['link', 1, 2], ['commit'],
                       ['set', 2, 1, {'a': 2}], ['flush'], ['rawpartial', 1], ['commit']]),
            dict(kind='H', cfg=cfg, prog=[['add', 0, 1, {'a': 1}], ['add', 2, 1, {'a': 1}], ['commit'], ['rawlink', 1, 1], ['commit']]),
            dict(kind='H', cfg=cfg, prog=[['add', 0, 1, {'a': 1}], ['add', 2, 1, {'a': 1}], ['link', 1, 1], ['flush'], ['unlink', 1, 1], ['commit']]),
            dict(kind='H', cfg=cfg, prog=[['add', 0, 1, {'a': 1}], ['add', 2, 1, {'a': 1}], ['flush'], ['rawlink_inline', 1, 1], ['add', 0, 2, {'a': 1}], ['commit']]),
            dict(kind='R', cfg=dict(shape='blog', strategy='validity', changes=True, twin=False),
                 prog=[['add', 0, 1, {'a': 1}], ['commit']], prog2=[['set', 0, 1, {'a': 2}], ['add', 1, 1, {'a': 0}], ['commit']])]


def _class_change(case):
    """inh shape: within one transaction a key is deleted, flushed, and added again as ANOTHER class of the hierarchy"""
    if case['cfg'].get('shape') != 'inh':
        return False
    deleted, flushed = {}, set()
    for op in case['prog']:
        if op[0] in ('commit', 'rollback'):
            deleted, flushed = {}, set()
        elif op[0] in ('del', 'delbase'):
            deleted[json.dumps(op[2])] = op[1]
        elif op[0] == 'flush':
            flushed |= set(deleted)
        elif op[0] == 'add' and json.dumps(op[2]) in flushed and deleted.get(json.dumps(op[2])) != op[1]:
            return True
    return False


def classify(case, obs):
    if case.get('kind') == 'O' and case['cfg'].get('keyless'):
        # open finding: the version table of an association table without a primary key has the transaction id as its
        # only key: the second link written in a transaction fails with IntegrityError - only when versioned
        a, b = obs.get('outcomes') or [], obs.get('plain_outcomes') or []
        marks = 0
        for op, x, y in zip(case['prog'], a, b):
            if op[0] == 'mark' and y == 'ok':
                marks += 1
            if op[0] == 'commit':
                if x == 'error:IntegrityError' and y == 'ok' and marks >= 2:
                    return 'F-C07-keyless-association-table'
                marks = 0
            if op[0] == 'flush' and x == 'error:IntegrityError' and y == 'ok' and marks >= 2:
                return 'F-C07-keyless-association-table'
        return None
    if case.get('kind') == 'H' and _class_change(case):
        a, b = obs.get('outcomes') or [], obs.get('plain_outcomes') or []
        if any(x == 'error:IntegrityError' and y == 'ok' for x, y in zip(a, b)):
            return 'F-C07-class-change-in-transaction'
    return _classify_active_history(case, obs)


def _classify_active_history(case, obs):
    """Open finding: with versioning, attribute assignment on an expired object loads the old value
    (active_history), which autoflushes pending objects earlier than without versioning; a later
    session.delete() of an object that is still pending in the unversioned run then fails there only."""
    if case.get('kind') != 'H' or not case['cfg'].get('autoflush'):
        return None
    # attribution by experiment: the difference disappears when the UNVERSIONED twin flushes exactly where
    # active_history makes the versioned run autoflush (assignment of an unloaded attribute)
    if obs.get('plain_ah_outcomes') is not None:
        def norm(o):
            return 'error' if o.startswith('error') else o
        if [norm(x) for x in obs['plain_ah_outcomes']] == [norm(x) for x in obs.get('outcomes') or []] and \
                obs.get('plain_ah_live') == obs.get('final_live'):
            return 'F-C07-active-history-autoflush'
    a, b = obs.get('outcomes') or [], obs.get('plain_outcomes') or []
    for i, (x, y) in enumerate(zip(a, b)):
        nx = 'error' if x.startswith('error') else x
        ny = 'error' if y.startswith('error') else y
        if nx != ny:
            ops = [op for op in case['prog']]
            if x == 'ok' and y == 'error:InvalidRequestError' and i < len(ops) and ops[i][0] == 'del':
                return 'F-C07-active-history-autoflush'
            # the same database error surfaces earlier: at the attribute assignment that autoflushes
            if x.startswith('error') and y == 'ok' and i < len(ops) and ops[i][0] in ('set', 'tagto', 'link', 'unlink'):
                later = [z for z in b[i + 1:] if z.startswith('error')]
                if later and later[0] == x:
                    return 'F-C07-active-history-autoflush'
            # session.get() of an entity whose delete is pending: the versioned run loaded it when an attribute was
            # assigned (active_history), so get() returns the object; the unversioned run has to refresh it, which
            # autoflushes the delete first and returns None
            if {x, y} == {'ok', 'skip'} and i < len(ops) and len(ops[i]) > 2:
                tgt = (ops[i][1], json.dumps(ops[i][2]))
                for op in reversed(ops[:i]):
                    if op[0] in ('commit', 'rollback'):
                        break
                    if op[0] == 'del' and (op[1], json.dumps(op[2])) == tgt:
                        return 'F-C07-active-history-autoflush'
            return None
    return None


def _listeners_left(env):
    import sqlalchemy as sa
    m = env.manager
    n = 0
    pairs = [(sa.orm.Mapper, name, fn) for name, fn in list(m.mapper_listeners.items()) + list(m.class_config_listeners.items())]
    pairs += [(sa.orm.session.Session, name, fn) for name, fn in m.session_listeners.items()]
    pairs += [(sa.engine.Engine, 'before_execute', m.track_association_operations),
              (sa.engine.Engine, 'rollback', m.clear_connection),
              (sa.engine.Engine, 'set_connection_execution_options', m.track_cloned_connections)]
    for target, name, fn in pairs:
        try:
            if sa.event.contains(target, name, fn):
                n += 1
        except Exception:
            pass
    return n


def _worker_R(chunk):
    cfg, items = chunk
    out = []
    for idx, case in items:
        try:
            with E.Env(options=hist.options_for(cfg), plugins=hist.plugins_for(cfg), build=hist.SHAPES[cfg['shape']](cfg),
                       autoflush=cfg.get('autoflush', False)) as env:
                r1 = hist.run_program(env, cfg, case['prog'])
                s = env.session()
                rec = hist.Recorder(env, cfg, s)
                before = rec.snapshot()
                rec.remove()
                s.commit()
                s.close()
                env.sc.remove_versioning()
                left = _listeners_left(env)
                env.versioned_removed = True
                r2 = hist.run_program(env, cfg, case['prog2'], record=False, plain=True)
                s = env.session()
                rec.session = s
                after = rec.snapshot()
                s.close()
                out.append((idx, dict(kind='R', before=before, after=after, listeners=left, ccfg=r1['ccfg'],
                                      outcomes=r2['outcomes'], exc=r1['exc'] or r2['exc'])))
        except Exception as e:
            import traceback
            out.append((idx, dict(kind='R', exc='%s: %s %s' % (type(e).__name__, e, traceback.format_exc()[-600:]))))
    return out


# ---- kind 'O': a parent with delete-orphan children that carry a deferred column; twin run without the recorder ----
def build_orphan(cfg):
    import sqlalchemy as sa

    def build(env, Base, opts):
        v = {'__versioned__': dict(opts)} if opts is not None else {}
        Parent = type('Parent', (Base,), dict(
            __tablename__='parent', id=sa.Column(sa.Integer, primary_key=True, autoincrement=False),
            a=sa.Column(sa.Integer), **v))
        poly = dict(kind=sa.Column(sa.Unicode(10)),
                    __mapper_args__={'polymorphic_on': 'kind', 'polymorphic_identity': 'child'}) if cfg.get('joined') else {}
        Child = type('Child', (Base,), dict(
            __tablename__='child', id=sa.Column(sa.Integer, primary_key=True, autoincrement=False),
            a=sa.Column(sa.Integer), body=sa.orm.deferred(sa.Column(sa.Integer)),
            parent_id=sa.Column(sa.Integer, sa.ForeignKey('parent.id')),
            **dict(poly, **({'__versioned__': dict(opts)} if opts is not None else {}))))
        if cfg.get('oneway'):
            # the relationship exists on the parent only: removing a child from the collection touches nothing on the child
            Parent.children = sa.orm.relationship(Child, cascade='all, delete-orphan')
        else:
            Child.parent = sa.orm.relationship(Parent, backref=sa.orm.backref('children', cascade='all, delete-orphan'))
        env.sub = None
        if cfg.get('joined'):
            # joined: the children are objects of a joined-table subclass; loaded through the base class (the parent's
            # collection, session.get(Child, k)) the columns of their own table stay unloaded
            env.sub = type('SubChild', (Child,), dict(
                __tablename__='subchild', id=sa.Column(sa.Integer, sa.ForeignKey('child.id'), primary_key=True, autoincrement=False),
                pages=sa.Column(sa.Integer), __mapper_args__={'polymorphic_identity': 'sub'},
                **({'__versioned__': dict(opts)} if opts is not None else {})))
        env.classes = [Parent, Child]
        env.assoc = []
        env.marks = None
        if cfg.get('keyless'):
            # keyless: a many-to-many association table declared WITHOUT a primary key (two foreign-key columns, as in
            # many tutorials)
            env.marks = sa.Table('parent_mark', Base.metadata,
                                 sa.Column('parent_id', sa.Integer, sa.ForeignKey('parent.id')),
                                 sa.Column('child_id', sa.Integer, sa.ForeignKey('child.id')))
            Parent.marked = sa.orm.relationship(Child, secondary=env.marks, backref='marked_by')
    return build


def gen_orphan_prog(rng):
    prog = [['addp', 1], ['addp', 2], ['addc', 1, 1], ['addc', 2, 1], ['addc', 3, 2], ['commit']]
    for _ in range(rng.randint(3, 8)):
        r = rng.random()
        if r < 0.30:
            prog.append(['orphan', rng.choice([1, 2, 3, 4])])        # removed from its parent's collection: deleted by the flush itself
        elif r < 0.45:
            prog.append(['setp', rng.choice([1, 2]), rng.choice([0, 1, 2])])
        elif r < 0.60:
            prog.append(['setc', rng.choice([1, 2, 3, 4]), rng.choice([0, 1, 2])])
        elif r < 0.70:
            prog.append(['addc', rng.choice([4, 5]), rng.choice([1, 2])])
        elif r < 0.78:
            prog.append(['delp', rng.choice([1, 2])])                # cascades to the children
        elif r < 0.88:
            prog.append(['flush'])
        else:
            prog.append(['commit'])
    prog.append(['commit'])
    return prog


def _run_orphan(env, prog):
    import sqlalchemy as sa
    Parent, Child = env.classes
    s = env.session()
    outcomes = []
    pending = {}

    def get(cls, key):
        o = pending.get((cls, key))
        return o if o is not None else s.get(cls, key)
    try:
        for op in prog:
            try:
                k = op[0]
                if k == 'addp':
                    if get(Parent, op[1]) is not None:
                        outcomes.append('skip')
                        continue
                    pending[(Parent, op[1])] = Parent(id=op[1], a=0)
                    s.add(pending[(Parent, op[1])])
                elif k == 'addc':
                    p_ = get(Parent, op[2])
                    if p_ is None or get(Child, op[1]) is not None:
                        outcomes.append('skip')
                        continue
                    pending[(Child, op[1])] = (env.sub(id=op[1], a=0, body=op[1] * 10, pages=op[1] + 100) if env.sub is not None
                                               else Child(id=op[1], a=0, body=op[1] * 10))
                    p_.children.append(pending[(Child, op[1])])
                elif k == 'orphan':
                    c_ = s.get(Child, op[1])                       # body stays unloaded (deferred)
                    p_ = None if c_ is None or c_.parent_id is None else s.get(Parent, c_.parent_id)
                    if c_ is None or p_ is None or c_ not in p_.children:
                        outcomes.append('skip')
                        continue
                    p_.children.remove(c_)
                elif k in ('setp', 'setc'):
                    o = s.get(Parent if k == 'setp' else Child, op[1])
                    if o is None:
                        outcomes.append('skip')
                        continue
                    o.a = op[2]
                elif k == 'delp':
                    o = s.get(Parent, op[1])
                    if o is None:
                        outcomes.append('skip')
                        continue
                    s.delete(o)
                elif k == 'mark':
                    p_, c_ = get(Parent, op[1]), get(Child, op[2])
                    if env.marks is None or p_ is None or c_ is None or c_ in p_.marked:
                        outcomes.append('skip')
                        continue
                    p_.marked.append(c_)
                elif k == 'flush':
                    s.flush()
                    pending.clear()
                    s.expire_all()        # objects are loaded again when used: the deferred column stays unloaded
                elif k == 'commit':
                    s.commit()
                    pending.clear()
                outcomes.append('ok')
            except Exception as e:
                outcomes.append('error:' + type(e).__name__)
                pending.clear()
                s.rollback()
        s.rollback()
        conn = s.connection()
        live = [[0] + list(r) for r in conn.execute(sa.select(Parent.__table__).order_by(Parent.__table__.c.id))] + \
               [[1] + list(r) for r in conn.execute(sa.select(Child.__table__).order_by(Child.__table__.c.id))]
        if env.sub is not None:
            live += [[2] + list(r) for r in conn.execute(sa.select(env.sub.__table__).order_by(env.sub.__table__.c.id))]
        if env.marks is not None:
            live += sorted([3] + list(r) for r in conn.execute(sa.select(env.marks)))
        s.rollback()
        return outcomes, live
    finally:
        s.close()


def gen_cross_prog(rng):
    prog = [['a_add', 1], ['a_add', 2], ['a_commit']]
    for _ in range(rng.randint(1, 3)):
        r = rng.random()
        if r < 0.7:
            prog += [['a_touch', rng.choice([1, 2])], ['a_flush']]       # a flush that writes nothing: no database lock
        elif r < 0.85:
            prog += [['a_set', rng.choice([1, 2]), rng.choice([3, 4, 5])], ['a_flush']]
        for _ in range(rng.randint(1, 2)):
            prog.append([rng.choice(['b_link', 'b_link', 'b_unlink']), rng.choice([1, 2]), rng.choice([1, 2])])
        prog.append([rng.choice(['a_commit', 'a_commit', 'a_rollback'])])
    return prog


def build_cross(cfg):
    import sqlalchemy as sa

    def build(env, Base, opts):
        v = {'__versioned__': dict(opts)} if opts is not None else {}
        env.marks = sa.Table('article_tag', Base.metadata,
                             sa.Column('article_id', sa.Integer, sa.ForeignKey('article.id'), primary_key=True),
                             sa.Column('tag_id', sa.Integer, sa.ForeignKey('tag.id'), primary_key=True))
        Tag = type('Tag', (Base,), dict(__tablename__='tag', id=sa.Column(sa.Integer, primary_key=True, autoincrement=False),
                                        a=sa.Column(sa.Integer), **v))
        Article = type('Article', (Base,), dict(
            __tablename__='article', id=sa.Column(sa.Integer, primary_key=True, autoincrement=False), a=sa.Column(sa.Integer),
            tags=sa.orm.relationship(Tag, secondary=env.marks, backref='articles'), **v))
        env.classes = [Article, Tag]
        env.assoc = []
        env.sub = None
    return build


def _run_cross(env, prog):
    """session A on its own pooled connection; the b_* statements on a second connection, committed at once"""
    import sqlalchemy as sa
    Article, Tag = env.classes
    s = env.session()
    outcomes = []
    try:
        for op in prog:
            try:
                k = op[0]
                if k == 'a_add':
                    s.add(Article(id=op[1], a=0))
                    s.add(Tag(id=op[1], a=0))
                elif k in ('a_touch', 'a_set'):
                    o = s.get(Article, op[1])
                    if o is None:
                        outcomes.append('skip')
                        continue
                    o.a = o.a if k == 'a_touch' else op[2]
                elif k == 'a_flush':
                    s.flush()
                elif k == 'a_commit':
                    s.commit()
                elif k == 'a_rollback':
                    s.rollback()
                elif k in ('b_link', 'b_unlink'):
                    cb = env.engine.connect()
                    try:
                        if k == 'b_link':
                            cb.execute(env.marks.insert(), {'article_id': op[1], 'tag_id': op[2]})
                        else:
                            cb.execute(env.marks.delete().where(sa.and_(env.marks.c.article_id == op[1],
                                                                        env.marks.c.tag_id == op[2])))
                        cb.commit()
                    except Exception:
                        cb.rollback()
                        raise
                    finally:
                        cb.close()
                outcomes.append('ok')
            except Exception as e:
                outcomes.append('error:' + type(e).__name__)
                if op[0].startswith('a_'):
                    s.rollback()
        s.rollback()
        conn = s.connection()
        live = [[0] + list(r) for r in conn.execute(sa.select(Article.__table__).order_by(Article.__table__.c.id))] + \
               [[1] + list(r) for r in conn.execute(sa.select(Tag.__table__).order_by(Tag.__table__.c.id))] + \
               sorted([3] + list(r) for r in conn.execute(sa.select(env.marks)))
        s.rollback()
        return outcomes, live
    finally:
        s.close()


def _cross_twin(cfg, prog):
    import os
    import shutil
    import tempfile
    d = tempfile.mkdtemp(prefix='c07x_', dir='/dev/shm' if os.path.isdir('/dev/shm') else None)
    try:
        res = []
        for versioned in (True, False):
            url = 'sqlite:///%s/%d.db?timeout=0.2' % (d, int(versioned))
            kw = dict(options=hist.options_for(cfg), plugins=hist.plugins_for(cfg)) if versioned else dict(versioned=False)
            with E.Env(build=build_cross(cfg), url=url, bind_engine=True, **kw) as env:
                try:
                    res.append(_run_cross(env, prog))
                finally:
                    env.connection.close()
                    env.engine.dispose()
        return res
    finally:
        shutil.rmtree(d, ignore_errors=True)


def _worker_O(chunk):
    cfg, items = chunk
    out = []
    for idx, case in items:
        if cfg.get('cross'):
            try:
                (o1, l1), (o2, l2) = _cross_twin(cfg, case['prog'])
                out.append((idx, dict(kind='O', trace=[], snaps=[], ccfg=[], outcomes=o1, plain_outcomes=o2, final_live=l1,
                                      plain_live=l2, exc=None, plain_exc=None, changed_entities=None)))
            except Exception as e:
                import traceback
                out.append((idx, dict(kind='O', trace=[], snaps=[], ccfg=[], outcomes=[], plain_outcomes=[], final_live=None,
                                      plain_live=None, changed_entities=None,
                                      exc='%s: %s %s' % (type(e).__name__, e, traceback.format_exc()[-400:]))))
            continue
        try:
            with E.Env(options=hist.options_for(cfg), plugins=hist.plugins_for(cfg), build=build_orphan(cfg)) as env:
                o1, l1 = _run_orphan(env, case['prog'])
            with E.Env(build=build_orphan(cfg), versioned=False) as env:
                o2, l2 = _run_orphan(env, case['prog'])
            out.append((idx, dict(kind='O', trace=[], snaps=[], ccfg=[], outcomes=o1, plain_outcomes=o2, final_live=l1, plain_live=l2,
                                  exc=None, plain_exc=None, changed_entities=None)))
        except Exception as e:
            import traceback
            out.append((idx, dict(kind='O', trace=[], snaps=[], ccfg=[], outcomes=[], plain_outcomes=[], final_live=None,
                                  plain_live=None, changed_entities=None,
                                  exc='%s: %s %s' % (type(e).__name__, e, traceback.format_exc()[-400:]))))
    return out


def run_impl(cases):
    res = [None] * len(cases)
    h_idx = [i for i, c in enumerate(cases) if c['kind'] == 'H']
    r_idx = [i for i, c in enumerate(cases) if c['kind'] == 'R']
    hres = hist.run_impl([cases[i] for i in h_idx])
    for i, o in zip(h_idx, hres):
        o['kind'] = 'H'
        res[i] = o
    chunks = []
    for j in range(0, len(r_idx), 4):
        part = r_idx[j:j + 4]
        for i in part:
            chunks.append((cases[i]['cfg'], [(i, cases[i])]))
    for part in E.pmap(_worker_R, chunks):
        for idx, o in part:
            res[idx] = o
    o_idx = [i for i, c in enumerate(cases) if c['kind'] == 'O']
    chunks = [(cases[i]['cfg'], [(i, cases[i])]) for i in o_idx]
    for part in E.pmap(_worker_O, chunks):
        for idx, o in part:
            res[idx] = o
    return res


def encode(case, obs):
    if case['kind'] == 'O':
        return '(C07_T %s)' % hist.encode_case(case, obs)
    if case['kind'] == 'H':
        if case.get('twin_only') and any(ev['ev'].startswith('sp') for ev in obs.get('trace') or []):
            # twin-only cases are judged on outcomes, application tables and dangling ids: the savepoint marks (and
            # the snapshots taken at them) are dropped from the trace, which is not replayed in the model for them
            keep = [i for i, ev in enumerate(obs['trace']) if not ev['ev'].startswith('sp')]
            obs = dict(obs, trace=[obs['trace'][i] for i in keep], snaps=[obs['snaps'][i] for i in keep])
        return '(%s %s)' % ('C07_T' if case.get('twin_only') else 'C07_H', hist.encode_case(case, obs))
    if obs.get('exc'):
        return '(C07_R snap0 snap0 0 true)'
    return '(C07_R %s %s %s false)' % (hist.g_snap(obs['before'], obs['ccfg']), hist.g_snap(obs['after'], obs['ccfg']),
                                       '(%d)%%nat' % obs['listeners'])


def nontrivial(case, obs):
    if case['kind'] == 'O' and case['cfg'].get('cross'):
        return any(op[0] in ('b_link', 'b_unlink') for op in case['prog']) and 'ok' in (obs.get('outcomes') or [])
    if case['kind'] == 'O':
        return any(op[0] in ('orphan', 'delp') for op in case['prog']) and 'ok' in (obs.get('outcomes') or [])
    if case['kind'] == 'R':
        return bool(obs.get('before')) and obs['before']['live'] != obs['after']['live']
    prog = case['prog']
    if any(op[0] in ('rawlink', 'rawunlink', 'rawlink_inline') for op in prog):
        return True
    if any(o.startswith('error') for o in obs.get('outcomes', [])):
        return True
    return B.nontrivial_default(case, obs)


def features(case, obs):
    if case['kind'] == 'O' and case['cfg'].get('cross'):
        return ['kind=O', 'cross-connection', 'b_ops=%d' % sum(1 for op in case['prog'] if op[0].startswith('b_'))]
    if case['kind'] == 'O':
        return ['kind=O', 'strategy=' + case['cfg']['strategy'], 'orphans=%d' % sum(1 for op in case['prog'] if op[0] == 'orphan')]
    if case['kind'] == 'R':
        return ['kind=R', 'listeners_left=%s' % obs.get('listeners')]
    return ['kind=H'] + B.features_counted(case, obs)


def shrink(case):
    if case['kind'] == 'O':
        return [dict(case, prog=case['prog'][:i] + case['prog'][i + 1:]) for i in range(6, len(case['prog']))]
    if case['kind'] == 'R':
        out = []
        for i in range(len(case['prog2'])):
            c = dict(case)
            c['prog2'] = case['prog2'][:i] + case['prog2'][i + 1:]
            out.append(c)
        return out
    out = []
    for c in B.shrink(case):
        c['kind'] = 'H'
        if case.get('twin_only'):
            c['twin_only'] = True
        out.append(c)
    return out


def describe(case, obs):
    if case['kind'] == 'O':
        return dict(kind='O', cfg=case['cfg'], program=case['prog'], outcomes=obs.get('outcomes'),
                    unversioned_outcomes=obs.get('plain_outcomes'), tables=obs.get('final_live'),
                    unversioned_tables=obs.get('plain_live'), harness_exception=obs.get('exc'))
    if case['kind'] == 'R':
        return dict(kind='R', cfg=case['cfg'], versioned_prefix=case['prog'], after_remove_versioning=case['prog2'], observed=obs)
    d = B.describe_short(case, obs)
    d['kind'] = 'H'
    d['unversioned_outcomes'] = obs.get('plain_outcomes')
    return d


def classify_corr(case, obs):
    if case.get('kind') != 'H':
        return None
    return B.classify_corr(case, obs)
