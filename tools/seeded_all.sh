#!/bin/sh
# usage: tools/seeded_all.sh — applies every seeded change in turn and runs the check(s) named first in its meta.json "ran" line;
# prints DETECTED / MISSED per seeded change (a regression test of the machinery itself; /repo is restored after each)
cd /verif
for d in seeded/C*/; do
  n=$(basename $d)
  props=$(python3 -c "import json,sys;print(' '.join(json.load(open('$d/meta.json'))['ran'].split()[2:]))")
  first=$(echo $props | cut -d' ' -f1)
  if ! git -C /repo apply --check /verif/$d/patch.diff 2>/dev/null; then echo "DOES-NOT-APPLY $n (rebase it onto the current /repo)"; continue; fi
  out=$(tools/try_patch.sh $d/patch.diff $first 2>&1)
  if echo "$out" | grep -q "VIOLATION property=$first"; then echo "DETECTED $n by $first $(echo "$out" | grep -c no-failing-input-found | sed 's/^0$//;s/^1$/(no-failing-input-found)/')"; else echo "MISSED   $n by $first"; fi
done
