#!/bin/sh
# usage: tools/suite_with_patch.sh <patch.diff>... — runs the repository's test suite on a private copy of /repo with each patch
# applied (a seeded change must leave the suite green); prints one line per patch
for p in "$@"; do
  p=$(realpath "$p")
  R=$(mktemp -d /tmp/suite_copy.XXXXXX); cp -a /repo/. "$R"; (cd "$R" && git checkout -q -- . && git apply "$p") || { echo "$p does-not-apply"; rm -rf "$R"; continue; }
  out=$(cd "$R" && PYTHONPATH="$R" /venv/bin/python -m pytest -q -p no:cacheprovider --timeout=900 -x --deselect tests/test_validity_strategy_multithreaded.py 2>&1 | tail -1)
  echo "$p: $out"
  rm -rf "$R"
done
