#!/bin/sh
# usage: tools/seeded_confirm.sh — every seeded demo must PASS on the unchanged /repo and FAIL with its patch applied
cd /verif
for d in seeded/C*/; do
  n=$(basename $d)
  a=$(cd /tmp && PYTHONPATH=/repo /venv/bin/python /verif/$d/demo.py >/dev/null 2>&1; echo $?)
  if git -C /repo apply /verif/$d/patch.diff 2>/dev/null; then
    b=$(cd /tmp && PYTHONPATH=/repo /venv/bin/python /verif/$d/demo.py >/dev/null 2>&1; echo $?)
    git -C /repo checkout -- .
  else b=does-not-apply; fi
  echo "$n unchanged=$a patched=$b"
done
