#!/bin/sh
# usage: tools/thorough.sh [props...] — runs the thorough tier of each check once, prints a summary line per property
# PRIVATE_REPO=1: work on a private copy of /repo (so that experiments in /repo do not disturb a long background run)
if [ -n "$PRIVATE_REPO" ]; then
  R=$(mktemp -d /tmp/repo_copy.XXXXXX); cp -a /repo/. "$R"; (cd "$R" && git checkout -q -- . 2>/dev/null); export VERIF_REPO="$R"; trap 'rm -rf "$R"' EXIT
fi
PROPS="$@"
[ -z "$PROPS" ] && PROPS=$(python3 -c "import json;print(' '.join(c['property_id'] for c in json.load(open('MANIFEST.json'))['checks']))")
for p in $PROPS; do
  start=$(date +%s)
  out=$(./check $p --tier thorough 2>&1); rc=$?
  echo "$p rc=$rc $(( $(date +%s) - start ))s $(echo "$out" | grep -c KNOWN-FINDING) known; $(echo "$out" | grep VIOLATION | head -2 | tr '\n' ' ') $(echo "$out" | grep '^\[' | tail -1)"
done
