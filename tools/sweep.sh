#!/bin/sh
# usage: tools/sweep.sh "<seeds>" [props...]  — runs quick checks for several seeds, prints a summary
# PRIVATE_REPO=1: work on a private copy of /repo (so that experiments in /repo do not disturb a long background run)
if [ -n "$PRIVATE_REPO" ]; then
  R=$(mktemp -d /tmp/repo_copy.XXXXXX); cp -a /repo/. "$R"; (cd "$R" && git checkout -q -- . 2>/dev/null); export VERIF_REPO="$R"; trap 'rm -rf "$R"' EXIT
fi
SEEDS="$1"; shift
PROPS="$@"
[ -z "$PROPS" ] && PROPS=$(python3 -c "import json;print(' '.join(c['property_id'] for c in json.load(open('MANIFEST.json'))['checks']))")
for s in $SEEDS; do
  for p in $PROPS; do
    out=$(VERIF_SEED=$s ./check $p --tier quick 2>&1); rc=$?
    echo "seed=$s $p rc=$rc $(echo "$out" | grep -c KNOWN-FINDING) known; $(echo "$out" | grep VIOLATION | head -1) $(echo "$out" | grep '^\[' | tail -1)"
  done
done
