#!/bin/sh
# usage: tools/try_patch.sh <patch.diff> <prop> [<prop> ...] : applies the patch to /repo, runs the quick checks, reverts
P="$(realpath "$1")"; shift
git -C /repo apply "$P" || exit 2
for prop in "$@"; do
  (cd /verif && ./check "$prop" --tier quick 2>&1 | tail -3)
done
git -C /repo checkout -- .
git -C /repo status --short
