#!/bin/sh
# usage: tools/coqchk.sh — re-checks every compiled property file (and everything it depends on) with the independent
# checker coqchk and writes the context summary (axioms, type-in-type, unsafe fixpoints, assumed positivity) to
# /verif/coqchk_report.txt
cd /verif/coq
mods=$(ls Props/*.v | sed 's#/#.#; s#\.v$##; s#^#Continuum.#' | tr '\n' ' ')
( echo "coqchk -o -R . Continuum $mods"; echo "date: $(date -u)"; timeout 3000 coqchk -o -R . Continuum $mods 2>&1 | sed -n '/Modules were successfully checked/,$p' ) > /verif/coqchk_report.txt
tail -20 /verif/coqchk_report.txt
