#!/usr/bin/env python3
"""usage: tools/evidence_ok.py - sanity check of the evidence files before they are committed: every file comes from a
quick run on the unchanged tree (all obligations discharged, no violation recorded, schema-valid)."""
import glob
import json
import sys
bad = []
try:
    import jsonschema
    schema = json.load(open('/root/.vp/EVIDENCE.schema.json'))
except Exception:
    jsonschema = schema = None
for f in sorted(glob.glob('/verif/evidence/C*.json')):
    e = json.load(open(f))
    c = e.get('coverage', {})
    if c.get('obligations') != c.get('discharged'):
        bad.append('%s: discharged %s of %s obligations' % (f, c.get('discharged'), c.get('obligations')))
    if e.get('tier', 'quick') != 'quick':
        bad.append('%s: tier %s' % (f, e.get('tier')))
    if jsonschema is not None:
        try:
            jsonschema.validate(e, schema)
        except Exception as ex:
            bad.append('%s: schema: %s' % (f, str(ex)[:120]))
print('\n'.join(bad) if bad else 'evidence ok (%d files)' % len(glob.glob('/verif/evidence/C*.json')))
sys.exit(1 if bad else 0)
