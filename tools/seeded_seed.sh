#!/bin/sh
# usage: tools/seeded_seed.sh <seed> [dir-prefix] — like seeded_all.sh with another seed; prints the counts too (robustness of the detections)
cd /verif
for d in seeded/${2:-C}*/; do
  n=$(basename $d)
  props=$(python3 -c "import json,sys;print(' '.join(json.load(open('$d/meta.json'))['ran'].split()[2:]))")
  first=$(echo $props | cut -d' ' -f1)
  git -C /repo apply /verif/$d/patch.diff 2>/dev/null || { echo "DOES-NOT-APPLY $n"; continue; }
  out=$(VERIF_SEED=$1 ./check $first --tier quick 2>&1 | tail -3)
  git -C /repo checkout -- .
  if echo "$out" | grep -q "VIOLATION property=$first"; then r=DETECTED; else r="MISSED  "; fi
  echo "$r $n $(echo "$out" | grep -c no-failing-input-found) $(echo "$out" | grep '^\[' | sed 's/.*corr_bad/corr_bad/')"
done
python3 harness/pytrans.py >/dev/null 2>&1
